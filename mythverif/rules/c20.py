"""C20 - sleeping and timed waits respect their deadlines."""
from .. import lib
from ..lib import (call_sites, same_value, describe, is_load_of, ret_cases, guard_interval, expr_str, affine, reaches_point)
from ..ir import const_int, eval_icmp
from .c01 import truthy_conds

META = {
    'explanation': 'Deadline obligations: (1) myth_nanosleep_body accepts exactly tv_sec >= 0 and tv_nsec in [0, 999999999] (guard '
                   'intervals at the first clock read), EINVAL only on the rejecting edges; (2) myth_timespec_gt, a loop-free '
                   'comparison-only function, is evaluated on all 9 orderings of (sec, nsec) and equals the lexicographic >; '
                   'myth_timespec_add takes quotient and remainder of the same nanosecond sum by the same 10^9 and adds the carry '
                   'to the seconds; (3) nanosleep returns 0 only on the true edge of gt(now, deadline) with now read in the same '
                   'iteration and deadline = add(start, request); timed lock / timed join return the timeout code only on that '
                   'edge, never after an untested successful try, and 0 only after a successful try; every waiting iteration '
                   'yields with an option that serves the local run queue; (4) usleep/sleep convert with 10^6 / 10^3 / 0.',
    'not_decided': 'real elapsed time, clock behaviour, scheduling latency',
    'assumptions': ['clock_gettime(CLOCK_REALTIME) returns the current time'],
    'technique': 'static analysis: guard intervals, exhaustive ordering-case evaluation of a comparison-only function, CFG '
                 'dominance over LLVM IR',
}
NATIVE = 'myth_if_native.c'
EINVAL, ETIMEDOUT, EBUSY = 22, 110, 16
NS = 1000000000
STEAL_ONLY = 3
TS = 'timespec.'


def flavours(ctx):
    return ['vanilla', 'ld', 'dl'] if ctx.tier == 'thorough' else ['vanilla']


def rule1_einval(ctx, v):
    ctx.doc('C20.1', 'myth_nanosleep_body: at the first hr_gettime call the guards have established req->tv_sec >= 0 and '
            '0 <= req->tv_nsec <= 999999999; EINVAL is returned only on a rejecting edge; valid requests are never rejected')
    f = ctx.need_fn(v, 'myth_nanosleep_body')
    req = f.param_named('req') or 'a0'
    clk = call_sites(f, 'hr_gettime')
    ctx.ob('C20.1', 'clock read present', len(clk) >= 2, 'start time and per-iteration time are read', loc=f.loc)
    first = [c for c in clk if not f.in_loop(c)]
    secl = [l for l in f.loads_of(TS + 'tv_sec') if same_value(f, f.ap(l.ops[0]).root, req)]
    nsl = [l for l in f.loads_of(TS + 'tv_nsec') if same_value(f, f.ap(l.ops[0]).root, req)]
    for c in first[:1]:
        lo, hi = (None, None)
        for l in secl:
            a, b = guard_interval(f, l.id, c)
            lo = a if lo is None else (max(lo, a) if a is not None else lo)
        ctx.ob('C20.1', 'tv_sec >= 0 before sleeping', lo == 0, 'negative seconds are rejected and zero accepted', loc=c.loc, detail='lower bound %s' % lo)
        nlo = nhi = None
        for l in nsl:
            a, b = guard_interval(f, l.id, c)
            nlo = a if nlo is None else (max(nlo, a) if a is not None else nlo)
            nhi = b if nhi is None else (min(nhi, b) if b is not None else nhi)
        ctx.ob('C20.1', 'tv_nsec in [0, 999999999] before sleeping', nlo == 0 and nhi == NS - 1,
               'exactly the POSIX range of nanoseconds is accepted', loc=c.loc, detail='[%s, %s]' % (nlo, nhi))
    nrej = 0
    for val, anchor in ret_cases(f):
        k = const_int(val)
        if k == EINVAL:
            nrej += 1
            ctx.ob('C20.1', 'EINVAL before touching the clock', not any(reaches_point(f, c, anchor) for c in clk),
                   'malformed durations are rejected before any waiting', loc=anchor.loc)
        elif k != 0:
            ctx.ob('C20.1', 'return codes', False, 'unexpected return value %s' % describe(f, val), loc=anchor.loc)
    ctx.ob('C20.1', 'rejecting returns', nrej >= 1, 'EINVAL returns exist', loc=f.loc)
    ctx.floor('C20.1', 5)


def eval_gt(f, asec, bsec, ansec, bnsec):
    """abstractly execute myth_timespec_gt on representative values of each ordering case"""
    a, b = 'a0', 'a1'
    return lib.eval_cmp_fn(f, {(a, TS + 'tv_sec'): asec, (b, TS + 'tv_sec'): bsec, (a, TS + 'tv_nsec'): ansec, (b, TS + 'tv_nsec'): bnsec})


def rule2_arith(ctx, v, rule='C20.2'):
    ctx.doc(rule, 'myth_timespec_gt(a,b) == (a.sec > b.sec) || (a.sec == b.sec && a.nsec > b.nsec) on all 9 ordering cases '
            '(finite because the function is loop-free and uses its inputs only in comparisons); myth_timespec_add: '
            'c.nsec = S % 10^9, c.sec = a.sec + b.sec + S / 10^9 with S = a.nsec + b.nsec the same SSA value')
    g = ctx.need_fn(v, 'myth_timespec_gt')
    ctx.ob(rule, 'timespec_gt is loop-free', not g.loops, 'finite ordering-case evaluation applies', loc=g.loc)
    for ds in (-1, 0, 1):
        for dn in (-1, 0, 1):
            got = eval_gt(g, 10 + ds, 10, 500 + dn, 500)
            want = 1 if (ds > 0 or (ds == 0 and dn > 0)) else 0
            ctx.ob(rule, 'timespec_gt case sec%+d nsec%+d' % (ds, dn), got is not None and (1 if got else 0) == want,
                   'lexicographic comparison of (tv_sec, tv_nsec)', loc=g.loc, detail='returned %s, expected %s' % (got, want))
    a = ctx.need_fn(v, 'myth_timespec_add')
    pa, pb, pc = 'a0', 'a1', 'a2'
    sn = [s for s in a.stores_to(TS + 'tv_nsec') if same_value(a, a.ap(s.ops[1]).root, pc)]
    ss = [s for s in a.stores_to(TS + 'tv_sec') if same_value(a, a.ap(s.ops[1]).root, pc)]
    ctx.ob(rule, 'add stores both fields', len(sn) == 1 and len(ss) == 1, 'tv_sec and tv_nsec of the result are written', loc=a.loc)
    if len(sn) == 1 and len(ss) == 1:
        rem = a.get(a.strip(sn[0].ops[0]))
        okr = rem is not None and rem.op in ('srem', 'urem') and const_int(rem.ops[1]) == NS
        S = rem.ops[0] if okr else None
        if not okr:
            # the other spelling of the remainder: S - (S / 10^9) * 10^9 with the same S
            na = affine(a, sn[0].ops[0])
            dv = [k for k in na if k in a.insts and a.insts[k].op in ('sdiv', 'udiv') and const_int(a.insts[k].ops[1]) == NS]
            if len(dv) == 1 and na[dv[0]] == -NS:
                rest = {k: c for k, c in na.items() if k != dv[0] and c != 0}
                sd = {k: c for k, c in affine(a, a.insts[dv[0]].ops[0]).items() if c != 0}
                if rest == sd:
                    okr, S = True, a.insts[dv[0]].ops[0]
        okS = False
        if S is not None:
            sa = affine(a, S)
            lds = [k for k in sa if k in a.insts and a.insts[k].op == 'load' and a.field(a.insts[k]) == TS + 'tv_nsec']
            okS = len(lds) == 2 and all(sa[k] == 1 for k in lds) and len([k for k in sa if k != '']) == 2 and sa.get('', 0) == 0 and \
                sorted(a.strip(a.ap(a.insts[k].ops[0]).root) for k in lds) == [pa, pb]
        ctx.ob(rule, 'nsec = (a.nsec + b.nsec) % 10^9', okr and okS, 'nanoseconds wrap at one second', loc=sn[0].loc,
               detail=expr_str(a, sn[0].ops[0]))
        sa2 = affine(a, ss[0].ops[0])
        div = [k for k in sa2 if k in a.insts and a.insts[k].op in ('sdiv', 'udiv')]
        okd = len(div) == 1 and sa2[div[0]] == 1 and const_int(a.insts[div[0]].ops[1]) == NS and S is not None and \
            a.sources(a.insts[div[0]].ops[0]) == a.sources(S)
        secl = [k for k in sa2 if k in a.insts and a.insts[k].op == 'load' and a.field(a.insts[k]) == TS + 'tv_sec']
        oks = len(secl) == 2 and all(sa2[k] == 1 for k in secl) and sorted(a.strip(a.ap(a.insts[k].ops[0]).root) for k in secl) == [pa, pb] and \
            len([k for k in sa2 if k != '']) == 3 and sa2.get('', 0) == 0
        ctx.ob(rule, 'sec = a.sec + b.sec + (a.nsec + b.nsec) / 10^9', okd and oks,
               'the carry of the very same nanosecond sum is added to the seconds (a lost carry makes a sleep return a second early)',
               loc=ss[0].loc, detail=expr_str(a, ss[0].ops[0]))
    ctx.floor(rule, 12)


def deadline_tests(f):
    """calls of myth_timespec_gt and the (cond, polarity) pairs meaning 'now > deadline'"""
    out = []
    for g in call_sites(f, 'myth_timespec_gt'):
        out.append((g, truthy_conds(f, g.id)))
    return out


def yields(f):
    return call_sites(f, ('myth_yield_body', 'myth_yield_ex_body', 'myth_yield'))


def rule3_noearly(ctx, v, rule='C20.3'):
    ctx.doc(rule, 'nanosleep: 0 returned only on the true edge of gt(cur, unt); cur filled by hr_gettime inside the loop, unt = '
            'add(start, req) computed once before it; timedlock / timedjoin: timeout code only on that edge with abstime as the '
            'deadline, never reachable from a try whose result was not tested, 0 only on try == 0; every iteration of the waiting '
            'loops passes a yield whose option is not steal-only')
    f = ctx.need_fn(v, 'myth_nanosleep_body')
    req = f.param_named('req') or 'a0'
    dts = deadline_tests(f)
    adds = call_sites(f, 'myth_timespec_add')
    clk = call_sites(f, 'hr_gettime')
    ctx.ob(rule, 'nanosleep: shape', len(dts) == 1 and len(adds) == 1, 'one deadline computation, one deadline test', loc=f.loc)
    for g, conds in dts:
        loopclk = [c for c in clk if f.in_loop(c)]
        ok = len(loopclk) == 1 and f.sources(g.args[0]) == f.sources(loopclk[0].args[0]) and f.dominates_f(loopclk[0], g) and \
            lib.loop_containing(f, g) == lib.loop_containing(f, loopclk[0])
        ctx.ob(rule, 'nanosleep: compares a clock value read in the same iteration', ok, 'gt(cur, ..) with cur = hr_gettime() of this iteration',
               loc=g.loc)
        okd = bool(adds) and f.sources(g.args[1]) == f.sources(adds[0].args[2]) and not f.in_loop(adds[0])
        ctx.ob(rule, 'nanosleep: deadline is start + request', okd and bool(adds) and same_value(f, adds[0].args[1], req) and
               any(f.sources(adds[0].args[0]) == f.sources(c.args[0]) and f.dominates_f(c, adds[0]) for c in clk if not f.in_loop(c)),
               'unt = add(time at entry, req), computed once', loc=(adds[0].loc if adds else g.loc))
        for val, anchor in ret_cases(f):
            if const_int(val) == 0 and any(reaches_point(f, c, anchor) for c in clk):
                ctx.ob(rule, 'nanosleep: returns 0 only past the deadline', any(f.on_edge(c, p, anchor) for c, p in conds),
                       'the sleep ends only on the edge now > deadline', loc=anchor.loc)
    wait_loops(ctx, f, 'nanosleep', dts)
    # every sleeper has its own deadline: nothing of the sleep's state is kept in static storage
    statics = [st for st in f.order if st.op in ('store',) and isinstance(f.ap(st.ops[1]).root, dict) and f.ap(st.ops[1]).root.get('g')] + \
              [c_ for c_ in f.calls() if c_.callee in ('hr_gettime', 'myth_timespec_add') and
               any(isinstance(a_, (str, dict)) and isinstance(f.ap(a_).root, dict) and f.ap(a_).root.get('g') for a_ in c_.args)]
    ctx.ob(rule, 'nanosleep: deadline and clock sample live in the caller\'s frame', not statics,
           'a static deadline is shared by all user-level threads that sleep at the same time: a long sleep returns at a later, shorter '
           'sleep\'s deadline', loc=(statics[0].loc if statics else f.loc))
    # the request may be the same object as the remainder (nanosleep(&ts, &ts)): nothing is stored through rem before the deadline
    # has been computed from req
    rem = f.param_named('rem') or 'a1'
    early = [st for st in f.order if st.op == 'store' and same_value(f, f.ap(st.ops[1]).root, rem) and
             any(f.can_reach(st, a_) for a_ in adds)]
    ctx.ob(rule, 'nanosleep: the request is read before the remainder is written', not early,
           'req and rem may alias; a remainder stored first turns the request into a zero-length sleep', loc=(early[0].loc if early else f.loc))
    for name, tryname, code, dl in (('myth_mutex_timedlock_body', 'myth_mutex_trylock_body', ETIMEDOUT, 'abstime'),
                                    ('myth_timedjoin_body', 'myth_tryjoin_body', EBUSY, 'abstime')):
        h = ctx.need_fn(v, name)
        dts = deadline_tests(h)
        trys = call_sites(h, tryname)
        clk = call_sites(h, 'hr_gettime')
        ab = h.param_named(dl)
        short = name.split('_')[1]
        ctx.ob(rule, short + ': shape', len(dts) == 1 and len(trys) >= 2 and len(clk) == 1, 'try, then loop {clock, compare, try, yield}', loc=h.loc)
        for g, conds in dts:
            ctx.ob(rule, short + ': compares the fresh clock with abstime', same_value(h, g.args[1], ab) and bool(clk) and
                   h.sources(g.args[0]) == h.sources(clk[0].args[0]) and h.dominates_f(clk[0], g) and
                   lib.loop_containing(h, g) == lib.loop_containing(h, clk[0]) and h.in_loop(g),
                   'gt(now, abstime) with now read in this iteration', loc=g.loc)
        for val, anchor in ret_cases(h):
            k = const_int(val)
            if k == 0:
                ok = any(h.on_edge(ic.id, ic.pred == 'eq', anchor) for t in trys for ic in h.users(t.id)
                         if ic.op == 'icmp' and ic.pred in ('eq', 'ne') and const_int(ic.ops[1]) == 0)
                ctx.ob(rule, short + ': success only after a successful try', ok, '0 is returned only on try == 0', loc=anchor.loc)
            else:
                ctx.ob(rule, short + ': timeout code', k == code, 'the failure code is the documented timeout code', loc=anchor.loc,
                       detail=describe(h, val))
                ctx.ob(rule, short + ': gives up only past the deadline', any(h.on_edge(c, p, anchor) for g, conds in dts for c, p in conds),
                       'timeout is reported only on the edge now > abstime', loc=anchor.loc)
                for t in trys:
                    tests = [br for ic in h.users(t.id) if ic.op == 'icmp' for cond, pol in lib.cond_chain(h, ic.id)
                             for br, _t, _f in h.cond_edges(cond)]
                    leak = reaches_point(h, t, anchor, blocked=tests)
                    ctx.ob(rule, short + ': no timeout after an untested try', not leak,
                           'a try that may have acquired the mutex / reaped the thread is always examined before a timeout can '
                           'be reported (otherwise the caller is told "timed out" while holding the lock)', loc=t.loc)
        # success whenever free at one of its attempts: first attempt happens before any deadline test
        ctx.ob(rule, short + ': first attempt precedes the deadline test',
               any(not h.in_loop(t) and all(h.dominates_f(t, g) for g, _c in dts) for t in trys),
               'a past deadline still succeeds if the resource is free (try first)', loc=h.loc)
        wait_loops(ctx, h, short, dts)
    ctx.floor(rule, 24)


def wait_loops(ctx, f, short, dts):
    ys = yields(f)
    for g, conds in dts:
        lp = lib.loop_containing(f, g)
        ctx.ob('C20.3', short + ': deadline test in a loop', lp is not None, 'polling loop', loc=g.loc)
        if lp is None:
            continue
        h = f.blocks[lp['header']].insts[0]
        ctx.ob('C20.3', short + ': every waiting iteration yields', h not in f.reachable_from(h, blocked=ys),
               'no cycle of the waiting loop avoids the yield (other runnable threads get the worker)', loc=g.loc)
    for y in ys:
        opt = None
        if y.callee == 'myth_yield_ex_body':
            opt = const_int(y.args[0])
        ctx.ob('C20.3', short + ': yield serves the local run queue', y.callee != 'myth_yield_ex_body' or (opt is not None and opt != STEAL_ONLY),
               'the sleeper yields with an option that lets threads of its own run queue run (not steal-only)', loc=y.loc,
               detail='option %s' % opt)
    ctx.ob('C20.3', short + ': has a yield', len(ys) >= 1, 'yield present', loc=f.loc)


def rule4_conv(ctx, v, rule='C20.4'):
    ctx.doc(rule, 'myth_usleep_body: tv_sec = usec / 10^6, tv_nsec = (usec % 10^6) * 1000; myth_sleep_body: tv_sec = s, tv_nsec = 0; '
            'both forward to myth_nanosleep_body and return its result')
    u = ctx.need_fn(v, 'myth_usleep_body')
    s = ctx.need_fn(v, 'myth_sleep_body')
    for f, kind in ((u, 'usleep'), (s, 'sleep')):
        ns = call_sites(f, 'myth_nanosleep_body')
        ctx.ob(rule, kind + ': forwards to nanosleep', len(ns) == 1, 'one nanosleep call', loc=f.loc)
        if len(ns) != 1:
            continue
        req = ns[0].args[0]
        ss = [x for x in f.stores_to(TS + 'tv_sec') if f.sources(f.ap(x.ops[1]).root) == f.sources(f.ap(req).root)]
        sn = [x for x in f.stores_to(TS + 'tv_nsec') if f.sources(f.ap(x.ops[1]).root) == f.sources(f.ap(req).root)]
        ok = len(ss) == 1 and len(sn) == 1 and f.dominates_f(ss[0], ns[0]) and f.dominates_f(sn[0], ns[0])
        ctx.ob(rule, kind + ': request filled before the call', ok, 'both fields of the request are written', loc=f.loc)
        if not ok:
            continue
        if kind == 'usleep':
            q = f.get(f.strip(ss[0].ops[0]))
            okq = q is not None and q.op in ('udiv', 'sdiv') and const_int(q.ops[1]) == 1000000 and same_value(f, q.ops[0], 'a0')
            m = f.get(f.strip(sn[0].ops[0]))
            okm = False
            if m is not None and m.op == 'mul' and const_int(m.ops[1]) == 1000:
                r = f.get(f.strip(m.ops[0]))
                okm = r is not None and r.op in ('urem', 'srem') and const_int(r.ops[1]) == 1000000 and same_value(f, r.ops[0], 'a0')
            ctx.ob(rule, 'usleep: sec = usec / 10^6', okq, 'whole seconds', loc=ss[0].loc, detail=expr_str(f, ss[0].ops[0]))
            ctx.ob(rule, 'usleep: nsec = (usec % 10^6) * 1000', okm, 'remaining microseconds as nanoseconds', loc=sn[0].loc,
                   detail=expr_str(f, sn[0].ops[0]))
        else:
            ctx.ob(rule, 'sleep: sec = s, nsec = 0', same_value(f, ss[0].ops[0], 'a0') and const_int(sn[0].ops[0]) == 0,
                   'whole seconds only', loc=ss[0].loc)
        for val, anchor in ret_cases(f):
            ctx.ob(rule, kind + ': returns nanosleep\'s result', isinstance(val, str) and ns[0].id in f.sources(val), 'result forwarded', loc=anchor.loc)
    ctx.floor(rule, 8)


def rule5_clock(ctx, fl):
    ctx.doc('C20.5', 'the clock all deadlines are compared with: hr_gettime reads CLOCK_REALTIME (the clock absolute pthread deadlines are '
            'expressed in, full resolution - a coarse or different clock lets a sleep or timed wait end before its deadline) into its '
            'own argument and returns the result of that call')
    m = ctx.ssa(NATIVE, flavour=fl)
    h = ctx.need_fn(m, 'hr_gettime')
    cg = [c for c in h.calls() if c.callee in ('clock_gettime', 'gettimeofday')]
    ctx.ob('C20.5', 'hr_gettime reads one clock', len(cg) == 1, 'clock_gettime', loc=h.loc)
    from ..witness import run_witness
    for name, ok, detail in run_witness(ctx, 'clock'):
        ctx.ob('C20.5', 'witness: ' + name, ok, 'value of CLOCK_REALTIME in <time.h>', loc='witnesses/abi_witness.c', detail=detail)
    for c in cg:
        if c.callee == 'clock_gettime':
            ctx.ob('C20.5', 'hr_gettime reads CLOCK_REALTIME', const_int(c.args[0]) == 0,
                   'clock id 0 = CLOCK_REALTIME; CLOCK_REALTIME_COARSE lags by up to a tick, CLOCK_MONOTONIC is not the clock of abstime',
                   loc=c.loc, detail='clock id %s' % const_int(c.args[0]))
            ctx.ob('C20.5', 'hr_gettime fills its argument', same_value(h, c.args[1], h.params[0]['id']), 'clock_gettime(.., ts)', loc=c.loc)
        rets = [r for r in h.exits() if r.ops]
        ctx.ob('C20.5', 'hr_gettime returns the result of the clock call', bool(rets) and all(same_value(h, r.ops[0], c.id) for r in rets),
               'callers assert on it', loc=h.loc)
    ctx.floor('C20.5', 4)


def run(ctx):
    for fl in flavours(ctx):
        ctx.unit = fl
        ctx.doc('C20.6', 'native API forwarding: each public entry point of this property reaches the implementation of the same name with its parameters in order and returns its result (sibling slips such as trylock -> lock, signal -> broadcast, swapped arguments)')
        ctx.attempt(lib.native_forwarding, ctx, 'C20.6', fl, lambda n: n in ('myth_sleep', 'myth_usleep', 'myth_nanosleep', 'myth_mutex_timedlock', 'myth_timedjoin'), floor=8)
        ctx.attempt(rule5_clock, ctx, fl)
        v = ctx.view(NATIVE, roots=['myth_nanosleep_body', 'myth_timespec_gt', 'myth_timespec_add', 'myth_mutex_timedlock_body',
                                    'myth_timedjoin_body', 'myth_usleep_body', 'myth_sleep_body'],
                     stops=('hr_gettime', 'myth_yield_body', 'myth_yield_ex_body', 'myth_mutex_trylock_body', 'myth_tryjoin_body'), flavour=fl)
        ctx.attempt(rule1_einval, ctx, v)
        ctx.attempt(rule2_arith, ctx, v)
        ctx.attempt(rule3_noearly, ctx, v)
        ctx.attempt(rule4_conv, ctx, v)


SCHED = 'src/myth_sched_func.h'
SYNC = 'src/myth_sync_func.h'
MUTANTS = [
    {'name': 'nanosleep keeps its deadline in static storage (seed5 C20/m2)', 'expect': 'C20.3',
     'edits': [(SCHED, "  struct timespec unt[1], cur[1];\n  (void)rem;", "  static struct timespec unt[1], cur[1];\n  (void)rem;")]},
    {'name': 'nanosleep clears *rem before reading *req (seed4 C20/m2)', 'expect': 'C20.3',
     'edits': [(SCHED, "  if (req->tv_nsec > 999999999) return EINVAL;\n  hr_gettime(cur);", "  if (req->tv_nsec > 999999999) return EINVAL;\n  if (rem) { rem->tv_sec = 0; rem->tv_nsec = 0; }\n  hr_gettime(cur);")]},
    {'name': 'nanosecond range checked on the low 32 bits only (seed3 C20/m1)', 'expect': 'C20.1',
     'edits': [(SCHED, "  if (req->tv_nsec < 0) return EINVAL;\n  if (req->tv_nsec > 999999999) return EINVAL;", "  if ((unsigned)req->tv_nsec > 999999999U) return EINVAL;")]},
    {'name': 'native myth_usleep forwards to sleep (seconds)', 'expect': 'C20.6',
     'edits': [('src/myth_if_native.c', "  return myth_usleep_body(usec);", "  return myth_sleep_body(usec);")]},
    {'name': 'deadlines compared with the coarse clock (seed2 C20/m1)', 'expect': 'C20.5',
     'edits': [('src/myth_misc_func.h', "  return clock_gettime(CLOCK_REALTIME, ts);", "  return clock_gettime(CLOCK_REALTIME_COARSE, ts);")]},
    {'name': 'accepts tv_nsec == 10^9', 'expect': 'C20.1',
     'edits': [(SCHED, "  if (req->tv_nsec > 999999999) return EINVAL;", "  if (req->tv_nsec > 1000000000) return EINVAL;")]},
    {'name': 'rejects zero seconds', 'expect': 'C20.1',
     'edits': [(SCHED, "  if (req->tv_sec < 0) return EINVAL;", "  if (req->tv_sec <= 0) return EINVAL;")]},
    {'name': 'negative nanoseconds accepted', 'expect': 'C20.1',
     'edits': [(SCHED, "  if (req->tv_nsec < 0) return EINVAL;\n", "")]},
    {'name': 'gt compares nanoseconds first', 'expect': 'C20.2',
     'edits': [(SCHED, "  if (a->tv_sec > b->tv_sec) return 1;\n  if (a->tv_sec == b->tv_sec) return a->tv_nsec > b->tv_nsec;\n  return 0;", "  if (a->tv_nsec > b->tv_nsec) return 1;\n  if (a->tv_nsec == b->tv_nsec) return a->tv_sec > b->tv_sec;\n  return 0;")]},
    {'name': 'gt is >= on equal seconds', 'expect': 'C20.2',
     'edits': [(SCHED, "  if (a->tv_sec == b->tv_sec) return a->tv_nsec > b->tv_nsec;", "  if (a->tv_sec == b->tv_sec) return a->tv_nsec >= b->tv_nsec;")]},
    {'name': 'add loses the carry (seed C20/m1)', 'expect': 'C20.2',
     'edits': [(SCHED, "  long ns = a->tv_nsec + b->tv_nsec;\n  c->tv_nsec = ns % 1000000000;\n  c->tv_sec = a->tv_sec + b->tv_sec + ns / 1000000000;", "  c->tv_sec = a->tv_sec + b->tv_sec;\n  c->tv_nsec = a->tv_nsec + b->tv_nsec;\n  if (c->tv_nsec >= 1000000000) {\n    c->tv_nsec -= 1000000000;\n  }")]},
    {'name': 'add divides by 10^8', 'expect': 'C20.2',
     'edits': [(SCHED, "  c->tv_sec = a->tv_sec + b->tv_sec + ns / 1000000000;", "  c->tv_sec = a->tv_sec + b->tv_sec + ns / 100000000;")]},
    {'name': 'nanosleep tests the entry time instead of a fresh clock', 'expect': 'C20.3',
     'edits': [(SCHED, "  while (1) {\n    hr_gettime(cur);\n    if (myth_timespec_gt(cur, unt)) break;\n    myth_yield_body();\n  }", "  hr_gettime(cur);\n  while (1) {\n    if (myth_timespec_gt(cur, unt)) break;\n    myth_yield_body();\n  }")]},
    {'name': 'nanosleep returns when the deadline is NOT passed', 'expect': 'C20.3',
     'edits': [(SCHED, "    if (myth_timespec_gt(cur, unt)) break;\n    myth_yield_body();", "    if (!myth_timespec_gt(cur, unt)) break;\n    myth_yield_body();")]},
    {'name': 'nanosleep spins without yielding', 'expect': 'C20.3',
     'edits': [(SCHED, "    if (myth_timespec_gt(cur, unt)) break;\n    myth_yield_body();", "    if (myth_timespec_gt(cur, unt)) break;")]},
    {'name': 'nanosleep yields steal-only (seed C20/m3)', 'expect': 'C20.3',
     'edits': [(SCHED, "    if (myth_timespec_gt(cur, unt)) break;\n    myth_yield_body();", "    if (myth_timespec_gt(cur, unt)) break;\n    myth_yield_ex_body(myth_yield_option_steal_only);")]},
    {'name': 'timedlock reports timeout before examining its try (seed C20/m2)', 'expect': 'C20.3',
     'edits': [(SYNC, "      int err = hr_gettime(tp);\n      assert(err == 0);\n      if (myth_timespec_gt(tp, abstime)) return ETIMEDOUT;\n      if (myth_mutex_trylock_body(mutex) == 0) {\n\treturn 0;\n      } else {",
                "      int got = myth_mutex_trylock_body(mutex);\n      int err = hr_gettime(tp);\n      assert(err == 0);\n      if (myth_timespec_gt(tp, abstime)) return ETIMEDOUT;\n      if (got == 0) {\n\treturn 0;\n      } else {")]},
    {'name': 'timedjoin gives up without looking at the clock', 'expect': 'C20.3',
     'edits': [(SCHED, "      if (myth_timespec_gt(tp, abstime)) return EBUSY;\n      if (myth_tryjoin_body(th, result) == 0) {", "      if (myth_tryjoin_body(th, result) == 0) {\n\treturn 0;\n      } else if (1) {\n\treturn EBUSY;\n      }\n      if (myth_tryjoin_body(th, result) == 0) {")]},
    {'name': 'timedlock skips the first attempt', 'expect': 'C20.3',
     'edits': [(SYNC, "  if (myth_mutex_trylock_body(mutex) == 0) {\n    return 0;\n  } else {\n    struct timespec tp[1];", "  if (0) {\n    return 0;\n  } else {\n    struct timespec tp[1];")]},
    {'name': 'usleep converts microseconds with 10^3', 'expect': 'C20.4',
     'edits': [(SCHED, "  req->tv_nsec = (usec % 1000000) * 1000;", "  req->tv_nsec = (usec % 1000) * 1000;")]},
]
