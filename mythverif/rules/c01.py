"""C01 - every created thread runs exactly once and join delivers its result."""
from .. import lib
from ..lib import (call_sites, switch_sites, same_value, describe, LockAnalysis, guarded_by_nonnull, is_load_of,
                   null_tests, fences)
from ..ir import const_int

META = {
    'explanation': 'Creation/join/finish hand-off obligations on the IR: (1) every myth_thread_attr_t field read on the '
                   'creation path is written by myth_thread_attr_init; (2) stores through documented-nullable out '
                   'parameters are null-guarded; (3) every descriptor field is initialised before the new thread is '
                   'published (switch / run-queue push) and never written afterwards; (4) the start function is invoked '
                   'exactly once with the stored argument and its result stored before cleanup; (5) join tests the '
                   'finished state and registers the waiter under the target\'s spinlock, only inside the switch '
                   'callback, and reads the result only after observing FREE_READY2; (6) the finisher takes the lock '
                   'before reading the waiter, leaves through a final switch with the lock held and publishes '
                   'FREE_READY2 before unlocking on the next stack; (7) spin lock/unlock contain full fences.',
    'not_decided': 'that no interleaving loses or duplicates a thread (schedule exploration), behaviour for concrete '
                   'stack sizes at run time',
    'assumptions': ['x86-TSO; cmpxchg and xchg-with-memory are full barriers',
                    'descriptor free lists hand out records no other thread references (C12/C13)'],
}
META['explanation'] += ' The stack size requested through the attribute reaches the stack allocation unchanged (C01.15).'

NATIVE = 'myth_if_native.c'
TH = 'myth_thread.'
FREE_READY2 = 3
DESC_FREE = 'free_myth_thread_struct_desc'


def flavours(ctx):
    return ['vanilla', 'ld', 'dl'] if ctx.tier == 'thorough' else ['vanilla']


# --------------------------------------------------------------------- C01.1
def rule1_attr(ctx, fl):
    ctx.doc('C01.1', 'fields of myth_thread_attr_t loaded through the attr parameter on the creation path '
            '(myth_create_ex_body with callees inlined) are a subset of the fields stored by '
            'myth_thread_attr_init_body (callees inlined)')
    v = ctx.view(NATIVE, roots=['myth_create_ex_body', 'myth_thread_attr_init_body'],
                 stops=('myth_queue_push', 'myth_queue_pop', 'get_new_myth_thread_struct_desc', 'myth_flmalloc',
                        'myth_freelist_pop', 'myth_freelist_push', 'myth_init_ex_body', 'myth_globalattr_init_body'),
                 flavour=fl)
    c = ctx.need_fn(v, 'myth_create_ex_body')
    i = ctx.need_fn(v, 'myth_thread_attr_init_body')
    attr_c = c.param_named('attr')
    attr_i = i.param_named('attr') or 'a0'
    written = set()
    for st in i.order:
        if st.op == 'store':
            ap = i.ap(st.ops[1])
            if ap.fields and ap.fields[0].startswith('myth_thread_attr.') and same_value(i, ap.root, attr_i):
                written.add(ap.fields[0])
        elif st.op == 'call' and st.callee and st.callee.startswith('llvm.mem'):
            ap = i.ap(st.args[0])
            if same_value(i, ap.root, attr_i) and not ap.fields:
                written.add('*')
    read = {}
    for ld in c.order:
        if ld.op == 'load':
            ap = c.ap(ld.ops[0])
            if ap.fields and ap.fields[0].startswith('myth_thread_attr.') and attr_c and same_value(c, ap.root, attr_c):
                read.setdefault(ap.fields[0], ld)
    ctx.ob('C01.1', 'creation path reads attribute fields', len(read) >= 3,
           'the creation path consults the attribute object', loc=c.loc, detail=str(sorted(read)))
    for fld, ld in sorted(read.items()):
        ok = fld in written or '*' in written
        ctx.ob('C01.1', 'attr_init writes %s' % fld.split('.')[1], ok,
               'field %s is read by myth_create_ex_body and must be initialised by myth_thread_attr_init' % fld,
               loc=ld.loc, detail='' if ok else 'myth_thread_attr_init_body (%s) writes only %s' % (i.loc, sorted(written)))
    ctx.floor('C01.1', 5)


def rule15_stacksize(ctx, fl):
    ctx.doc('C01.15', 'the thread runs on the stack its attribute asked for: the size handed to get_new_myth_thread_struct_stack in '
            'myth_create_ex_body is attr->stacksize; the only other value is 0 (= pooled default stack), chosen only where attr is NULL '
            '(or where the request was compared equal to something, e.g. the default) - any other rewrite of the request serves a '
            'large-stack thread from the 128 KB pool and its start function overruns it')
    v = ctx.view(NATIVE, roots=['myth_create_ex_body'],
                 stops=('myth_queue_push', 'myth_queue_pop', 'get_new_myth_thread_struct_desc', 'get_new_myth_thread_struct_stack',
                        'myth_init_ex_body', 'myth_make_context_empty', 'myth_make_context_voidcall') + lib.SPIN_STOPS, flavour=fl)
    c = ctx.need_fn(v, 'myth_create_ex_body')
    attr = c.param_named('attr')
    sites = call_sites(c, 'get_new_myth_thread_struct_stack')
    ctx.ob('C01.15', 'creation allocates the stack once', len(sites) == 1 and attr is not None, 'one stack allocation site', loc=c.loc)
    nts = null_tests(c, attr) if attr is not None else []
    for site in sites:
        bad, nload = [], 0
        stack, seen = [site.args[1]], set()
        while stack:
            r = stack.pop()
            if isinstance(r, dict):
                if const_int(r) != 0:
                    bad.append('constant %s' % const_int(r))
                continue
            r = c.strip(r)
            if r in seen:
                continue
            seen.add(r)
            ins = c.insts.get(r)
            if ins is None:
                bad.append('value %s' % describe(c, r))
            elif ins.op == 'load' and c.field(ins) == 'myth_thread_attr.stacksize' and same_value(c, c.ap(ins.ops[0]).root, attr):
                nload += 1
            elif ins.op == 'phi':
                for val, b_ in ins.d['incoming']:
                    if const_int(val) == 0:
                        term = c.blocks[b_].insts[-1]
                        on_null = any((br.block.id == b_ and nl == ins.block.id and nn != nl) or c.edge_dominates(br.block.id, nl, term)
                                      for br, nn, nl in nts)
                        on_eq = any(ic.op == 'icmp' and ic.pred == 'eq' and c.on_edge(ic.id, True, term) and
                                    any(k in c.insts and c.insts[k].op == 'load' and c.field(c.insts[k]) == 'myth_thread_attr.stacksize'
                                        for o in ic.ops if isinstance(o, str) for k in c.sources(o)) for ic in c.order)
                        if not (on_null or on_eq):
                            bad.append('0 chosen at %s although an attribute is given' % term.loc)
                    else:
                        stack.append(val)
            else:
                bad.append('computed by %s at %s' % (ins.op, ins.loc))
        ctx.ob('C01.15', 'stack size = attr->stacksize (0 only without an attribute)', nload >= 1 and not bad,
               'the requested stack size reaches the allocation unchanged', loc=site.loc, detail='; '.join(bad[:3]))
    ctx.floor('C01.15', 2)


# --------------------------------------------------------------------- C01.2
NULLABLE = [('myth_create_ex_body', 'id'), ('myth_join_body', 'result'), ('myth_tryjoin_body', 'result')]


def rule2_nullable(ctx, v):
    ctx.doc('C01.2', 'every store through an out parameter documented "if not NULL" (myth_create_ex id, '
            'myth_join/tryjoin result) is dominated by the non-null edge of a test of that parameter')
    for fname, pname in NULLABLE:
        f = ctx.need_fn(v, fname)
        p = f.param_named(pname)
        if p is None:
            from ..frontend import AnalysisBroken
            raise AnalysisBroken('%s has no parameter named %s' % (fname, pname))
        n = 0
        for st in f.order:
            if st.op != 'store':
                continue
            ap = f.ap(st.ops[1])
            if f.sources(ap.root) == {p}:
                n += 1
                ok = guarded_by_nonnull(f, p, st)
                ctx.ob('C01.2', '%s: store through %s' % (fname, pname), ok,
                       'store through nullable out-parameter %s is guarded by a non-null test' % pname, loc=st.loc,
                       detail='' if ok else 'unguarded store *%s = %s' % (pname, describe(f, st.ops[0])))
        ctx.ob('C01.2', '%s: %s is written' % (fname, pname), n >= 1,
               'the out parameter receives the value when it is given', loc=f.loc)
    ctx.floor('C01.2', 6)


# --------------------------------------------------------------------- C01.3
def publication_events(f):
    """the two points at which myth_create_ex_body makes the new thread visible: the child-first switch and the parent-first push"""
    news = call_sites(f, 'get_new_myth_thread_struct_desc')
    if len(news) != 1:
        return []
    nt = news[0].id
    sw = [s.ins for s in switch_sites(f) if s.is_swap]
    pushes = [p for p in call_sites(f, 'myth_queue_push') if f.sources(p.args[1]) == f.sources(nt)]
    return sw + pushes


def rule3_publish(ctx, v, rule='C01.3', only=None):
    ctx.doc(rule, 'in myth_create_ex_body every descriptor field of the new thread (result=arg, status, join_thread, '
            'detached, env, stack, context.rsp, tls root; entry_func on the parent-first branch) is stored on every '
            'path before the thread is published (child-first: the switch; parent-first: myth_queue_push) and no '
            'field of it is stored after publication')
    f = ctx.need_fn(v, 'myth_create_ex_body')
    news = call_sites(f, 'get_new_myth_thread_struct_desc')
    ctx.ob(rule, 'myth_create_ex_body: allocates descriptor', len(news) == 1, 'one descriptor allocation', loc=f.loc)
    if len(news) != 1:
        return
    nt = news[0].id
    sw = [s for s in switch_sites(f) if s.is_swap]
    pushes = [p for p in call_sites(f, 'myth_queue_push') if f.sources(p.args[1]) == f.sources(nt)]
    ctx.ob(rule, 'myth_create_ex_body: child-first publication', len(sw) == 1 and sw[0].callback == 'myth_create_1',
           'child-first branch switches to the new context running myth_create_1', loc=f.loc)
    ctx.ob(rule, 'myth_create_ex_body: parent-first publication', len(pushes) == 1,
           'parent-first branch pushes the new thread on the run queue', loc=f.loc)
    pubs = [('child-first', s.ins) for s in sw] + [('parent-first', p) for p in pushes]
    stores = {}
    for st in f.order:
        if st.op == 'store':
            ap = f.ap(st.ops[1])
            if ap.fields and f.sources(ap.root) == f.sources(nt):
                key = ap.fields[0] if not (len(ap.fields) > 1 and ap.fields[0] in (TH + 'context', TH + 'tls')) \
                    else ap.fields[0] + '/' + ap.fields[-1].split('.')[-1]
                stores.setdefault(key, []).append(st)
    need_all = [TH + 'result', TH + 'status', TH + 'join_thread', TH + 'detached', TH + 'env', TH + 'stack',
            TH + 'context/rsp', TH + 'tls/root', TH + 'cancelled', TH + 'cancel_enabled']
    need = [x for x in need_all if only is None or x in only]
    entry = f.entry_inst()
    for kind, pub in pubs:
        req = need + ([TH + 'entry_func'] if kind == 'parent-first' and only is None else [])
        for fld in req:
            sts = stores.get(fld, [])
            ok = bool(sts) and pub not in f.reachable_from(entry, blocked=sts, include_start=True)
            ctx.ob(rule, 'myth_create_ex_body: %s initialised before %s publication' % (fld.split('.', 1)[1], kind),
                   ok, 'new_thread->%s is written on every path before the thread becomes visible to other workers'
                   % fld.split('.', 1)[1], loc=pub.loc,
                   trace=[] if ok else lib.lines(f.witness_path(entry, [pub], blocked=sts)))
        late = [st for sts in stores.values() for st in sts if f.can_reach(pub, st)]
        ctx.ob(rule, 'myth_create_ex_body: no descriptor write after %s publication' % kind, not late,
               'the creator does not write the descriptor after publishing it (the child may already run or be '
               'finished)', loc=(late[0].loc if late else pub.loc))
    if only is not None:
        return
    # result holds the argument
    arg = f.param_named('arg')
    okr = any(same_value(f, st.ops[0], arg) for st in stores.get(TH + 'result', []))
    ctx.ob(rule, 'myth_create_ex_body: result slot carries arg', okr,
           'the argument is handed to the child through new_thread->result', loc=f.loc)
    fp = f.param_named('func')
    for st in stores.get(TH + 'entry_func', []):
        ctx.ob(rule, 'myth_create_ex_body: entry_func = func', same_value(f, st.ops[0], fp),
               'parent-first entry function is the func parameter', loc=st.loc)
    for s in sw:
        a1, a2, a3 = s.cb_args
        ctx.ob(rule, 'myth_create_ex_body: callback receives (env, func, new_thread)',
               a2 is not None and same_value(f, a2, fp) and a3 is not None and f.sources(a3) == f.sources(nt),
               'myth_create_1 gets the function and the new descriptor', loc=s.ins.loc)
        to = s.to_ctx()
        okto = to is not None and f.ap(to).fields[-1:] == [TH + 'context'] and f.sources(f.ap(to).root) == f.sources(nt)
        ctx.ob(rule, 'myth_create_ex_body: switches to the new context', okto,
               'the target of the switch is new_thread->context', loc=s.ins.loc)
        frm = s.from_ctx()
        okfrom = frm is not None and is_load_of(f, f.ap(frm).root, 'myth_running_env.this_thread')
        ctx.ob(rule, 'myth_create_ex_body: saves the parent context', okfrom,
               'the context saved is env->this_thread->context (the parent continuation)', loc=s.ins.loc)
    ctx.floor(rule, 28 if only is None else 2 * len(only))


# --------------------------------------------------------------------- C01.4
def indirect_calls(f):
    return [c for c in f.order if c.op == 'call' and 'callee_ref' in c.d]


def rule4_invoke(ctx, v):
    ctx.doc('C01.4', 'myth_create_1 / myth_entry_point contain exactly one indirect call of the start function, not in '
            'a loop, with argument = load of the thread\'s result slot, return value stored back to that slot, and '
            'dominating the single call of myth_entry_point_cleanup; exit/testcancel store the result first')
    f = ctx.need_fn(v, 'myth_create_1')
    ic = indirect_calls(f)
    ctx.ob('C01.4', 'myth_create_1: one invocation', len(ic) == 1 and not f.in_loop(ic[0]),
           'exactly one indirect call, outside any loop', loc=(ic[0].loc if ic else f.loc), detail='%d calls' % len(ic))
    cl = call_sites(f, 'myth_entry_point_cleanup')
    ctx.ob('C01.4', 'myth_create_1: one cleanup', len(cl) == 1, 'exactly one cleanup call', loc=f.loc)
    for c in ic:
        ctx.ob('C01.4', 'myth_create_1: calls arg2', same_value(f, c.d['callee_ref'], 'a1'),
               'the function called is callback arg2 (the func handed over by myth_create_ex)', loc=c.loc)
        okarg = len(c.args) == 1 and is_load_of(f, c.args[0], TH + 'result') and \
            all(same_value(f, f.ap(f.insts[k].ops[0]).root, 'a2') for k in f.sources(c.args[0]))
        ctx.ob('C01.4', 'myth_create_1: argument is new_thread->result', okarg,
               'the argument passed is the value stored in the new thread\'s result slot', loc=c.loc)
        sts = [s for s in f.stores_to(TH + 'result') if same_value(f, s.ops[0], c.id) and
               same_value(f, f.ap(s.ops[1]).root, 'a2')]
        ctx.ob('C01.4', 'myth_create_1: return value stored', len(sts) == 1 and
               all(f.dominates_f(sts[0], k) for k in cl), 'the return value is stored in result before cleanup', loc=c.loc)
        for k in cl:
            ctx.ob('C01.4', 'myth_create_1: invocation before cleanup', f.dominates_f(c, k) and
                   same_value(f, k.args[0], 'a2'), 'cleanup(new_thread) runs only after the function returned', loc=k.loc)
        push = [p for p in call_sites(f, 'myth_queue_push') if is_load_of(f, p.args[1], 'myth_running_env.this_thread')]
        ctx.ob('C01.4', 'myth_create_1: parent continuation pushed first', len(push) == 1 and f.dominates_f(push[0], c),
               'the suspended parent is pushed on the run queue before the child function runs', loc=c.loc)
        if push:
            stt = f.stores_to('myth_running_env.this_thread')
            ok = len(stt) == 1 and same_value(f, stt[0].ops[0], 'a2') and f.dominates_f(stt[0], c) and \
                not f.can_reach(stt[0], [i for i in f.order if i.id in f.sources(push[0].args[1])][0])
            ctx.ob('C01.4', 'myth_create_1: this_thread switched to child', ok,
                   'env->this_thread is set to the child after the parent was read from it and before the call',
                   loc=c.loc)
    g = ctx.need_fn(v, 'myth_entry_point')
    ic = indirect_calls(g)
    ctx.ob('C01.4', 'myth_entry_point: one invocation', len(ic) == 1 and not g.in_loop(ic[0]),
           'exactly one indirect call, outside any loop', loc=(ic[0].loc if ic else g.loc))
    cl = call_sites(g, 'myth_entry_point_cleanup')
    ctx.ob('C01.4', 'myth_entry_point: one cleanup', len(cl) == 1, 'exactly one cleanup call', loc=g.loc)
    for c in ic:
        ctx.ob('C01.4', 'myth_entry_point: calls entry_func', is_load_of(g, c.d['callee_ref'], TH + 'entry_func'),
               'the function called is this_thread->entry_func', loc=c.loc)
        th_roots = set()
        for k in g.sources(c.d['callee_ref']):
            th_roots |= g.sources(g.ap(g.insts[k].ops[0]).root)
        okarg = len(c.args) == 1 and is_load_of(g, c.args[0], TH + 'result')
        ctx.ob('C01.4', 'myth_entry_point: argument is result slot', okarg, 'argument is this_thread->result', loc=c.loc)
        sts = [s for s in g.stores_to(TH + 'result') if same_value(g, s.ops[0], c.id)]
        ctx.ob('C01.4', 'myth_entry_point: return value stored', len(sts) == 1 and all(g.dominates_f(sts[0], k) for k in cl),
               'the return value is stored in result before cleanup', loc=c.loc)
        for k in cl:
            ctx.ob('C01.4', 'myth_entry_point: cleans up the thread it started', g.sources(k.args[0]) == th_roots,
                   'cleanup is applied to the very thread whose entry function ran (read once, before the call: the '
                   'worker may have changed while the function ran)', loc=k.loc, detail=describe(g, k.args[0]))
        ctx.ob('C01.4', 'myth_entry_point: this_thread from env', all(
            is_load_of(g, r, 'myth_running_env.this_thread') for r in th_roots) and bool(th_roots),
            'the thread being started is env->this_thread', loc=c.loc)
    for name, val in (('myth_exit_body', 'param'), ('myth_testcancel_body', 'canceled')):
        h = ctx.need_fn(v, name)
        cl = call_sites(h, 'myth_entry_point_cleanup')
        ctx.ob('C01.4', name + ': one cleanup', len(cl) == 1, 'exactly one cleanup call', loc=h.loc)
        for k in cl:
            sts = [s for s in h.stores_to(TH + 'result') if h.dominates_f(s, k) and
                   h.sources(h.ap(s.ops[1]).root) == h.sources(k.args[0])]
            ok = bool(sts)
            if val == 'param' and sts:
                ok = same_value(h, sts[0].ops[0], 'a0')
            ctx.ob('C01.4', name + ': result stored before cleanup', ok,
                   'the exit value is stored in the terminating thread\'s result slot before cleanup', loc=k.loc)
            ctx.ob('C01.4', name + ': cleans up the current thread',
                   all(is_load_of(h, r, 'myth_running_env.this_thread') for r in h.sources(k.args[0])),
                   'the thread cleaned up is env->this_thread', loc=k.loc)
    ctx.floor('C01.4', 18)


# --------------------------------------------------------------------- C01.5
def status_tests(f, th_ref):
    """volatile loads of th->status"""
    return [l for l in f.loads_of(TH + 'status') if l.volatile and f.sources(f.ap(l.ops[0]).root) == f.sources(th_ref)]


def after_ready2(f, th_ref, target):
    """target executes only after a volatile load of th->status compared equal to FREE_READY2"""
    for l in status_tests(f, th_ref):
        for ic in f.users(l.id):
            if ic.op == 'icmp' and ic.pred in ('eq', 'ne') and const_int(ic.ops[1]) == FREE_READY2:
                if f.on_edge(ic.id, ic.pred == 'eq', target):
                    return True
    return False


def rule5_join(ctx, v):
    ctx.doc('C01.5', 'join/tryjoin: the finished test is made with th->lock held; if not finished the lock is still held '
            'at the switch and the callback stores join_thread before unlocking; the result is read and the record '
            'released only after a volatile load of status compared equal to FREE_READY2')
    f = ctx.need_fn(v, 'myth_join_body')
    th = f.param_named('th') or 'a0'
    la = LockAnalysis(f)
    lk = [k for k in la.keys_matching(TH + 'lock')]
    ctx.ob('C01.5', 'myth_join_body: locks th->lock', len(lk) == 1, 'join takes the target\'s spinlock', loc=f.loc)
    key = lk[0] if lk else None
    fin = []
    for l in status_tests(f, th):
        for ic in f.users(l.id):
            if ic.op == 'icmp' and ic.pred in ('sge', 'uge', 'sgt', 'ugt'):
                fin.append((l, ic))
    ctx.ob('C01.5', 'myth_join_body: finished test', len(fin) >= 1, 'join tests status >= FREE_READY', loc=f.loc)
    for l, ic in fin:
        ctx.ob('C01.5', 'myth_join_body: finished test under lock', key is not None and la.held_must(l, key),
               'th->status is read for the finished test with th->lock held (the finisher publishes it under the lock)',
               loc=l.loc)
    sw = [s for s in switch_sites(f) if s.is_swap]
    ctx.ob('C01.5', 'myth_join_body: two blocking switches', len(sw) == 2 and
           sorted(s.callback for s in sw) == ['myth_join_2', 'myth_join_3'], 'switch to next thread / to scheduler',
           loc=f.loc)
    for s in sw:
        k = 'myth_join_body@' + str(s.callback)
        ctx.ob('C01.5', k + ': lock held into the switch', key is not None and la.held_must(s.ins, key),
               'th->lock is still held when the joiner switches away (released by the callback after registering)',
               loc=s.ins.loc)
        for l, ic in fin:
            okne = f.on_edge(ic.id, False, s.ins)
            ctx.ob('C01.5', k + ': only if not finished', okne, 'blocking happens only on the not-finished edge', loc=s.ins.loc)
        a1, a2, a3 = s.cb_args
        if s.callback == 'myth_join_2':
            ok = a1 is not None and a2 is not None and same_value(f, a2, th) and a3 is not None and \
                f.sources(a3) == f.sources(call_sites(f, 'myth_queue_pop')[0].id if call_sites(f, 'myth_queue_pop') else 'x')
            ctx.ob('C01.5', k + ': args (env, th, next)', ok, 'callback gets the target thread and the popped next thread',
                   loc=s.ins.loc)
            to = s.to_ctx()
            ctx.ob('C01.5', k + ': switches to next', to is not None and f.sources(f.ap(to).root) == f.sources(a3),
                   'the switch target is the popped thread\'s context', loc=s.ins.loc)
        else:
            ok = a1 is not None and is_load_of(f, a1, 'myth_running_env.this_thread') and a2 is not None and same_value(f, a2, th)
            ctx.ob('C01.5', k + ': args (this_thread, th)', ok, 'callback gets the joiner and the target', loc=s.ins.loc)
            to = s.to_ctx()
            ctx.ob('C01.5', k + ': switches to scheduler', to is not None and
                   any(x.endswith('.sched') for x in f.ap(to).fields), 'the switch target is the scheduler context',
                   loc=s.ins.loc)
        frm = s.from_ctx()
        ctx.ob('C01.5', k + ': saves the joiner', frm is not None and
               is_load_of(f, f.ap(frm).root, 'myth_running_env.this_thread'), 'the saved context is the joiner\'s', loc=s.ins.loc)
    for name in ('myth_join_body', 'myth_tryjoin_body'):
        g = ctx.need_fn(v, name)
        gth = g.param_named('th') or 'a0'
        frees = call_sites(g, DESC_FREE)
        ctx.ob('C01.5', name + ': releases the record', len(frees) >= 1, 'a successful join recycles the descriptor', loc=g.loc)
        for fr in frees:
            ctx.ob('C01.5', name + ': release only after FREE_READY2', after_ready2(g, gth, fr),
                   'the record is released only after status == FREE_READY2 was observed (volatile)', loc=fr.loc)
            ctx.ob('C01.5', name + ': releases th', same_value(g, fr.args[1], gth), 'the record released is the target\'s', loc=fr.loc)
        for l in g.loads_of(TH + 'result'):
            ctx.ob('C01.5', name + ': result read only after FREE_READY2', after_ready2(g, gth, l),
                   'th->result is read only after the finisher published FREE_READY2', loc=l.loc)
        if name == 'myth_tryjoin_body':
            la2 = LockAnalysis(g)
            k2 = la2.keys_matching(TH + 'lock')
            for l in status_tests(g, gth):
                for ic in g.users(l.id):
                    if ic.op == 'icmp' and ic.pred in ('sge', 'uge', 'sgt', 'ugt'):
                        ctx.ob('C01.5', name + ': finished test under lock', bool(k2) and la2.held_must(l, k2[0]),
                               'tryjoin tests the finished state under th->lock', loc=l.loc)
            for r in g.exits():
                ctx.ob('C01.5', name + ': unlocked at return', not la2.held_may(r), 'no lock held at return', loc=r.loc)
    # the lock is either released by join itself or handed to the callback of a blocking switch (which releases it, below):
    # no return is reachable from the lock acquisition without passing one of the two
    unl_here = [u for u in call_sites(f, lib.SPIN_UNLOCK) if f.ap(u.args[0]).fields[-1:] == [TH + 'lock']]
    for l0 in [c_ for c_ in call_sites(f, lib.SPIN_LOCK) if f.ap(c_.args[0]).fields[-1:] == [TH + 'lock']]:
        leaked = [r for r in f.reachable_from(l0, blocked=unl_here + [s.ins for s in sw]) if r.op == 'ret']
        ctx.ob('C01.5', 'myth_join_body: th->lock released or handed over before returning', not leaked,
               'a join that returns with the target\'s lock held leaves the recycled descriptor locked for its next owner',
               loc=(leaked[0].loc if leaked else l0.loc), trace=[] if not leaked else lib.lines(f.witness_path(l0, leaked, blocked=unl_here + [s.ins for s in sw])))
    # callbacks
    for cbn, waiter in (('myth_join_2', 'env'), ('myth_join_3', 'arg1')):
        c = ctx.need_fn(v, cbn)
        la3 = LockAnalysis(c)
        sts = [s for s in c.stores_to(TH + 'join_thread') if same_value(c, c.ap(s.ops[1]).root, 'a1')]
        uns = [u for u in call_sites(c, lib.SPIN_UNLOCK) if c.ap(u.args[0]).fields[-1:] == [TH + 'lock'] and
               same_value(c, c.ap(u.args[0]).root, 'a1')]
        ctx.ob('C01.5', cbn + ': registers waiter', len(sts) == 1, 'callback stores th->join_thread', loc=c.loc)
        ctx.ob('C01.5', cbn + ': unlocks th->lock', len(uns) == 1, 'callback releases th->lock exactly once', loc=c.loc)
        for s in sts:
            if waiter == 'env':
                okv = is_load_of(c, s.ops[0], 'myth_running_env.this_thread') and \
                    not any(c.can_reach(w, c.insts[k]) for w in c.stores_to('myth_running_env.this_thread')
                            for k in c.sources(s.ops[0]))
            else:
                okv = same_value(c, s.ops[0], 'a0')
            ctx.ob('C01.5', cbn + ': waiter is the suspended joiner', okv,
                   'the registered waiter is the joiner whose context has just been saved', loc=s.loc)
            for u in uns:
                ctx.ob('C01.5', cbn + ': register before unlock', c.dominates_f(s, u),
                       'join_thread is stored before th->lock is released (the finisher reads it under the lock)', loc=u.loc)
    ctx.floor('C01.5', 30)


# --------------------------------------------------------------------- C01.6
def rule6_finish(ctx, v):
    ctx.doc('C01.6', 'myth_entry_point_cleanup locks this_thread->lock before loading join_thread, makes a registered '
            'waiter READY and switches to it, otherwise to the popped thread or the scheduler, always through a final '
            'switch with the lock held; myth_entry_point_1/_2 store status=FREE_READY2 before unlocking on the '
            'joinable path, and release nothing the joiner still needs')
    f = ctx.need_fn(v, 'myth_entry_point_cleanup')
    th = 'a0'
    la = LockAnalysis(f)
    lk = la.keys_matching(TH + 'lock')
    ctx.ob('C01.6', 'cleanup: locks this_thread->lock', len(lk) == 1, 'the finisher takes its own spinlock', loc=f.loc)
    key = lk[0] if lk else None
    jl = [l for l in f.loads_of(TH + 'join_thread')]
    ctx.ob('C01.6', 'cleanup: reads join_thread', len(jl) == 1, 'one load of join_thread', loc=f.loc)
    for l in jl:
        ctx.ob('C01.6', 'cleanup: join_thread read under lock', key is not None and la.held_must(l, key),
               'the waiter is read with the lock held (it is registered under the same lock)', loc=l.loc)
    tls = call_sites(f, 'myth_tls_tree_fini')
    ctx.ob('C01.6', 'cleanup: TLS destructors first', len(tls) == 1 and
           all(f.dominates_f(tls[0], c) for c in call_sites(f, lib.SPIN_LOCK)),
           'thread-specific destructors run before the thread is marked finished', loc=(tls[0].loc if tls else f.loc))
    finals = [s for s in switch_sites(f) if s.is_final]
    ctx.ob('C01.6', 'cleanup: three final switches', len(finals) == 3, 'waiter / next / scheduler', loc=f.loc)
    pops = call_sites(f, 'myth_queue_pop')
    for n, s in enumerate(finals):
        k = 'cleanup@%s#%d' % (s.callback, n + 1)
        ctx.ob('C01.6', k + ': lock held into final switch', key is not None and la.held_must(s.ins, key),
               'the finisher\'s lock is held until the callback on the next stack has marked it FREE_READY2', loc=s.ins.loc)
        a1, a2, a3 = s.cb_args
        ctx.ob('C01.6', k + ': callback gets this_thread', a2 is not None and same_value(f, a2, th),
               'callback arg2 is the finished thread', loc=s.ins.loc)
        to = s.to_ctx()
        if s.callback == 'myth_entry_point_1':
            tgt_ok = to is not None and a3 is not None and f.sources(f.ap(to).root) == f.sources(a3) and \
                f.ap(to).fields[-1:] == [TH + 'context']
            ctx.ob('C01.6', k + ': target context = arg3 thread', tgt_ok,
                   'the thread switched to is the one handed to the callback as next_thread', loc=s.ins.loc)
            src = f.sources(a3) if a3 is not None else set()
            is_waiter = jl and src == {jl[0].id}
            is_next = pops and src == {pops[0].id}
            ctx.ob('C01.6', k + ': target is waiter or popped thread', bool(is_waiter or is_next),
                   'the next thread is the registered joiner or a thread popped from the own run queue', loc=s.ins.loc)
            if is_waiter:
                ctx.ob('C01.6', k + ': waiter branch guarded', guarded_by_nonnull(f, jl[0].id, s.ins),
                       'switching to the waiter happens only if one is registered', loc=s.ins.loc)
                st = [x for x in f.stores_to(TH + 'status') if f.sources(f.ap(x.ops[1]).root) == {jl[0].id}]
                ctx.ob('C01.6', k + ': waiter made READY', len(st) == 1 and const_int(st[0].ops[0]) == 0 and
                       f.dominates_f(st[0], s.ins), 'the waiter is marked READY before it is resumed', loc=s.ins.loc)
                se = [x for x in f.stores_to(TH + 'env') if f.sources(f.ap(x.ops[1]).root) == {jl[0].id}]
                ctx.ob('C01.6', k + ': waiter rebound to this worker', len(se) == 1 and f.dominates_f(se[0], s.ins),
                       'the waiter\'s env is set to the finisher\'s worker before it is resumed there', loc=s.ins.loc)
            if is_next:
                ctx.ob('C01.6', k + ': next branch guarded', guarded_by_nonnull(f, pops[0].id, s.ins),
                       'switching to a popped thread happens only if the pop returned one', loc=s.ins.loc)
        else:
            ctx.ob('C01.6', k + ': to scheduler', to is not None and any(x.endswith('.sched') for x in f.ap(to).fields),
                   'with nothing runnable the finisher switches to the scheduler context', loc=s.ins.loc)
            if pops:
                ctx.ob('C01.6', k + ': only if pop was empty', lib.guarded_by_null(f, pops[0].id, s.ins),
                       'the scheduler is entered only when the run queue was empty', loc=s.ins.loc)
    rets = [r for r in f.exits() if r in f.reachable_insts()]
    ctx.ob('C01.6', 'cleanup: never returns', not rets, 'every path ends in a final switch', loc=f.loc)
    for cbn in ('myth_entry_point_1', 'myth_entry_point_2'):
        c = ctx.need_fn(v, cbn)
        this = 'a1'
        lkey_ptr = None
        uns = [u for u in call_sites(c, lib.SPIN_UNLOCK) if c.ap(u.args[0]).fields[-1:] == [TH + 'lock'] and
               same_value(c, c.ap(u.args[0]).root, this)]
        ctx.ob('C01.6', cbn + ': unlocks', len(uns) == 2, 'one unlock per branch (detached / joinable)', loc=c.loc)
        la2 = None
        if uns:
            la0 = LockAnalysis(c)
            k0 = la0.key_of(uns[0].args[0])
            la2 = LockAnalysis(c, initial=[k0])
            for r in c.exits():
                ctx.ob('C01.6', cbn + ': lock released at return', not la2.held_may(r),
                       'the lock taken by cleanup is released on every path of the callback', loc=r.loc)
            ctx.ob('C01.6', cbn + ': single release', not la2.double_unlock, 'the lock is released once', loc=c.loc)
        dl = [l for l in c.loads_of(TH + 'detached') if same_value(c, c.ap(l.ops[0]).root, this)]
        ctx.ob('C01.6', cbn + ': reads detached', len(dl) == 1, 'the detached flag decides who releases the record', loc=c.loc)
        for l in dl:
            ctx.ob('C01.6', cbn + ': detached read under lock', la2 is not None and la2.held_must(l, k0),
                   'detached is read while the lock taken in cleanup is still held', loc=l.loc)
        sts = [s for s in c.stores_to(TH + 'status') if same_value(c, c.ap(s.ops[1]).root, this)]
        ctx.ob('C01.6', cbn + ': publishes FREE_READY2', len(sts) == 1 and const_int(sts[0].ops[0]) == FREE_READY2 and
               sts[0].volatile, 'status is set to FREE_READY2 with a volatile store', loc=c.loc)
        for s in sts:
            after = [u for u in uns if c.can_reach(s, u)]
            before = [u for u in uns if c.can_reach(u, s)]
            ctx.ob('C01.6', cbn + ': FREE_READY2 before unlock', len(after) == 1 and not before and
                   la2 is not None and la2.held_must(s, k0),
                   'FREE_READY2 is stored while the lock is held, i.e. before the unlock a joiner may be waiting for',
                   loc=s.loc)
            for l in dl:
                ctx.ob('C01.6', cbn + ': FREE_READY2 only if joinable',
                       any(c.on_edge(cond, not pol, s) for cond, pol in truthy_conds(c, l.id)),
                       'the joinable path is the not-detached edge', loc=s.loc)
        if cbn == 'myth_entry_point_1':
            st = c.stores_to('myth_running_env.this_thread')
            ctx.ob('C01.6', cbn + ': this_thread := next', len(st) == 1 and same_value(c, st[0].ops[0], 'a2'),
                   'the worker\'s current thread becomes the resumed one', loc=c.loc)
    ctx.floor('C01.6', 35)


def truthy_conds(f, ref):
    """(cond, polarity) pairs meaning 'ref != 0'"""
    out = []
    for u in f.users(ref):
        if u.op == 'icmp' and u.pred in ('ne', 'eq') and const_int(u.ops[1]) == 0:
            out += lib.cond_chain(f, u.id, u.pred == 'ne')
        elif u.op in ('zext', 'sext', 'trunc'):
            out += truthy_conds(f, u.id)
    return out


# --------------------------------------------------------------------- C01.7
def rule7_spin(ctx, fl):
    ctx.doc('C01.7', 'myth_spin_unlock_body executes a full fence before its releasing store; myth_spin_trylock_body '
            'acquires by cmpxchg(locked: 0 -> 1) and executes a full fence on the winning edge before returning 1')
    v = ctx.view(NATIVE, roots=['myth_spin_unlock_body', 'myth_spin_trylock_body', 'myth_spin_lock_body'], stops=(),
                 flavour=fl)
    u = ctx.need_fn(v, 'myth_spin_unlock_body')
    LOCKED = 'myth_spinlock_t.locked'
    sts = u.stores_to(LOCKED)
    fs = [x for x in fences(u) if x.op != 'cmpxchg']
    ctx.ob('C01.7', 'spin_unlock: releasing store', len(sts) == 1 and const_int(sts[0].ops[0]) == 0 and
           same_value(u, u.ap(sts[0].ops[1]).root, 'a0'), 'unlock stores 0 to lock->locked', loc=u.loc)
    for s in sts:
        ctx.ob('C01.7', 'spin_unlock: full fence before release', any(u.dominates_f(x, s) for x in fs),
               'all critical-section accesses are ordered before the releasing store', loc=s.loc)
        ctx.ob('C01.7', 'spin_unlock: volatile store', s.volatile, 'the releasing store is volatile', loc=s.loc)
    t = ctx.need_fn(v, 'myth_spin_trylock_body')
    cas = [c for c in lib.cmpxchg_sites(t, LOCKED)]
    ctx.ob('C01.7', 'spin_trylock: CAS 0->1', len(cas) == 1 and const_int(cas[0].ops[1]) == 0 and
           const_int(cas[0].ops[2]) == 1, 'acquisition is a compare-and-swap 0 -> 1 on lock->locked', loc=t.loc)
    ctx.ob('C01.7', 'spin_trylock: no plain store', not t.stores_to(LOCKED), 'locked is never set by a plain store', loc=t.loc)
    for val, anchor in lib.ret_cases(t):
        c = const_int(val)
        if c is not None and c != 0:
            ok = any(lib.on_cas_success(t, x, anchor) for x in cas)
            ctx.ob('C01.7', 'spin_trylock: success only after winning CAS', ok,
                   'a non-zero return is reached only through the CAS success edge', loc=anchor.loc)
        elif c == 0:
            ok = any(lib.on_cas_failure(t, x, anchor) for x in cas)
            ctx.ob('C01.7', 'spin_trylock: failure only after losing CAS', ok, 'zero is returned only when the CAS failed',
                   loc=anchor.loc)
        else:
            ctx.ob('C01.7', 'spin_trylock: return shape', False, 'return value is not a constant per path', loc=anchor.loc)
    l = ctx.need_fn(v, 'myth_spin_lock_body')
    trys = call_sites(l, 'myth_spin_trylock_body')
    ok = len(trys) == 1 and same_value(l, trys[0].args[0], 'a0')
    ctx.ob('C01.7', 'spin_lock: loops on trylock', ok, 'lock spins on trylock(lock)', loc=l.loc)
    for r in l.exits():
        okr = any(l.on_edge(cond, pol, r) for tcall in trys for cond, pol in truthy_conds(l, tcall.id))
        ctx.ob('C01.7', 'spin_lock: returns only after trylock succeeded', okr,
               'lock returns only on the edge where trylock returned non-zero', loc=r.loc)
    ctx.floor('C01.7', 8)


def run(ctx):
    for fl in flavours(ctx):
        ctx.unit = fl
        ctx.doc('C01.12', 'native API forwarding: each public entry point of this property reaches the implementation of the same name with its parameters in order and returns its result (sibling slips such as trylock -> lock, signal -> broadcast, swapped arguments)')
        ctx.attempt(lib.native_forwarding, ctx, 'C01.12', fl, lambda n: n in ('myth_create', 'myth_create_ex', 'myth_join', 'myth_exit', 'myth_self', 'myth_equal') or n.startswith('myth_thread_attr_'), floor=8)
        ctx.attempt(rule1_attr, ctx, fl)
        ctx.attempt(rule15_stacksize, ctx, fl)
        stops = ('myth_queue_push', 'myth_queue_pop', 'get_new_myth_thread_struct_desc',
                 'get_new_myth_thread_struct_stack', DESC_FREE, 'free_myth_thread_struct_stack',
                 'myth_get_current_env_noinline', 'myth_tls_tree_fini', 'myth_init_ex_body',
                 'myth_entry_point_cleanup') + lib.SPIN_STOPS
        roots = ['myth_create_ex_body', 'myth_create_1', 'myth_entry_point', 'myth_exit_body', 'myth_testcancel_body',
                 'myth_join_body', 'myth_tryjoin_body', 'myth_join_2', 'myth_join_3', 'myth_entry_point_cleanup',
                 'myth_entry_point_1', 'myth_entry_point_2']
        v = ctx.view(NATIVE, roots=roots, stops=stops, flavour=fl)
        ctx.attempt(rule2_nullable, ctx, v)
        ctx.attempt(rule3_publish, ctx, v)
        ctx.attempt(rule4_invoke, ctx, v)
        ctx.attempt(rule5_join, ctx, v)
        ctx.attempt(rule6_finish, ctx, v)
        ctx.attempt(rule7_spin, ctx, fl)
        # the joiner / finisher must not reuse the worker env obtained before it switched (shared with C12.3)
        from . import c12
        ctx.doc('C01.8', 'join / exit / thread entry: no worker-env pointer obtained before a context switch or before the '
                'user function is used after it (stale-value dataflow, shared with C12.3)')
        c12.rule3_env(ctx, fl, rule='C01.8', only=['myth_join', 'myth_tryjoin', 'myth_timedjoin', 'myth_exit', 'myth_create_1',
                                                   'myth_entry_point', 'myth_create_ex', 'myth_create'], units=[(NATIVE, None)])
        # necessary conditions decided in full by sibling properties, stated here for the clauses of C01 they carry
        ctx.doc('C01.13', 'thread attribute accessors: myth_thread_attr_set<X> stores its argument in field X of the attribute object (and '
                'nothing else), get<X> reads the same field - the requested setting, and only it, reaches the creation path')
        va = ctx.view(NATIVE, roots=['myth_thread_attr_%s%s_body' % (a, x) for a in ('set', 'get')
                                     for x in ('detachstate', 'guardsize', 'stacksize', 'stack')], stops=(), flavour=fl)
        lib.accessor_agreement(ctx, 'C01.13', va, 'myth_thread_attr', 'myth_thread_attr_set%s_body', 'myth_thread_attr_get%s_body',
                               {'detachstate': [(1, 'detachstate')], 'guardsize': [(1, 'guardsize')], 'stacksize': [(1, 'stacksize')],
                                'stack': [(1, 'stackaddr'), (2, 'stacksize')]})
        ctx.floor('C01.13', 8)
        with ctx.shared({'C12.4': 'C01.9'}, keep=lambda k: k.startswith(('alloc:', 'free:', 'alloc and free')), floor=12,
                        doc='custom stack sizes (shared with C12.4): the block header written by the custom-size allocation is what '
                            'the release reads back (size word, block start, size class), so a thread created with a stack-size '
                            'attribute runs and is reaped on a block of the allocated size'):
            v2 = ctx.view(NATIVE, roots=['get_new_myth_thread_struct_stack', c12.STACK_FREE, 'myth_flmalloc', 'myth_flfree'],
                          stops=('myth_freelist_pop', 'myth_freelist_push', 'myth_mmap'), flavour=fl)
            ctx.attempt(c12.rule4_affine, ctx, v2)
        from . import c17
        with ctx.shared({'C17.2': 'C01.14'}, keep=lambda k: k.startswith('leaf:') or 'result' in k, floor=2,
                        doc='bulk creation (shared with C17.2): myth_create_join_many / various hand every thread its own argument and store '
                            'its return value in its own result slot (results + i * result_stride)'):
            v17 = ctx.view(NATIVE, roots=['myth_create_join_various_ex_aux', 'myth_create_join_various_ex_body', 'myth_create_join_many_ex_body'],
                           stops=('myth_create_ex_body', 'myth_join_body', 'myth_self', 'myth_self_body'), flavour=fl)
            ctx.attempt(c17.rule2_strides, ctx, v17)
        from . import c13, c02
        with ctx.shared({'C13.4': 'C01.10'}, floor=7,
                        doc='timed join (shared with C13.4): success only after a successful try, "busy" only past the deadline and '
                            'never after a try that was not examined (it may have copied the result and recycled the record)'):
            vt = ctx.view(NATIVE, roots=['myth_join_body', 'myth_tryjoin_body', 'myth_detach_body', 'myth_timedjoin_body'],
                          stops=('myth_queue_push', 'myth_queue_pop', DESC_FREE, 'myth_get_current_env_noinline', 'myth_tryjoin_body',
                                 'myth_timespec_gt', 'hr_gettime', 'myth_yield_ex_body') + lib.SPIN_STOPS, flavour=fl)
            ctx.attempt(c13.rule4_timed, ctx, vt)
        with ctx.shared({'C02.6': 'C01.11'}, floor=10,
                        doc='a created thread that is taken from a run queue is always run (shared with C02.6): every result of a pop / '
                            'steal is tested and, when non-NULL, becomes the switch target, is re-queued or is returned; a popped thread '
                            'that is overwritten or forgotten is never invoked and its joiner waits forever'):
            ctx.attempt(c02.rule6_nodrop, ctx, fl)


SCHED = 'src/myth_sched_func.h'
SPIN = 'src/myth_spinlock_func.h'
MUTANTS = [
    {'name': 'requests at least as large as the default are served from the pool of default stacks (seed6 C01/m1)', 'expect': 'C01.15',
     'edits': [('src/myth_sched_func.h', "  size_t stack_size       = (attr ? attr->stacksize : 0);\n", "  size_t stack_size       = (attr ? attr->stacksize : 0);\n  if (stack_size >= g_attr.stacksize) stack_size = 0;\n")]},
    {'name': 'myth_thread_attr_setguardsize writes stacksize', 'expect': 'C01.13',
     'edits': [(SCHED, "  attr->guardsize = guardsize;", "  attr->stacksize = guardsize;")]},
    {'name': 'native myth_join forwards swapped-in NULL result pointer', 'expect': 'C01.12',
     'edits': [('src/myth_if_native.c', "  return myth_join_body(th,result);", "  return myth_join_body(th,0);")]},
    {'name': 'join returns with the lock of an already finished target (sweep M0364)', 'expect': 'C01.5',
     'edits': [(SCHED, "    myth_spin_unlock_body(&th->lock);\n    while (th->status != MYTH_STATUS_FREE_READY2);", "    while (th->status != MYTH_STATUS_FREE_READY2);")]},
    {'name': 'attr_init forgets child_first', 'expect': 'C01.1',
     'edits': [(SCHED, "  myth_globalattr_get_child_first_body(0, &attr->child_first);\n", "")]},
    {'name': 'attr_init forgets custom_data (original defect D1)', 'expect': 'C01.1',
     'edits': [(SCHED, "  attr->custom_data_size = 0;\n  attr->custom_data = 0;\n", "")]},
    {'name': 'unguarded id store (original defect D2)', 'expect': 'C01.2',
     'edits': [(SCHED, "  if (id) {\n    id[0] = new_thread;\n  }", "  id[0] = new_thread;")]},
    {'name': 'join_1 stores result unconditionally', 'expect': 'C01.2',
     'edits': [(SCHED, "  if (result!=NULL){\n    *result=th->result;\n  }", "  *result=th->result;")]},
    {'name': 'result=arg moved after publication', 'expect': 'C01.3',
     'edits': [(SCHED, "  new_thread->result = arg;\n\n  size_t stk_size", "\n  size_t stk_size"),
               (SCHED, "  if (id) {\n    id[0] = new_thread;\n  }", "  new_thread->result = arg;\n  if (id) {\n    id[0] = new_thread;\n  }")]},
    {'name': 'parent-first: entry_func set after the push', 'expect': 'C01.3',
     'edits': [(SCHED, "    new_thread->entry_func = func;\n    //Create context", "    //Create context"),
               (SCHED, "    myth_queue_push(&env->runnable_q, new_thread);\n#if MYTH_CREATE_PROF\n    t1 = myth_get_rdtsc();",
                "    myth_queue_push(&env->runnable_q, new_thread);\n    new_thread->entry_func = func;\n#if MYTH_CREATE_PROF\n    t1 = myth_get_rdtsc();")]},
    {'name': 'recycled descriptor keeps stale join_thread', 'expect': 'C01.3',
     'edits': [(SCHED, "  th->join_thread = NULL;\n", "")]},
    {'name': 'start function invoked twice', 'expect': 'C01.4',
     'edits': [(SCHED, "  new_thread->result = (*fn)(new_thread->result);\n  //myth_log_add(new_thread->env,MYTH_LOG_INT);",
                "  new_thread->result = (*fn)(new_thread->result);\n  if (!new_thread->result) new_thread->result = (*fn)(new_thread->result);")]},
    {'name': 'child run before the parent continuation is pushed', 'expect': 'C01.4',
     'edits': [(SCHED, "  //Push current thread to runqueue\n  myth_queue_push(&env->runnable_q, this_thread);\n", ""),
               (SCHED, "  new_thread->result = (*fn)(new_thread->result);\n  //myth_log_add(new_thread->env,MYTH_LOG_INT);",
                "  new_thread->result = (*fn)(new_thread->result);\n  myth_queue_push(&env->runnable_q, this_thread);")]},
    {'name': 'myth_exit forgets to store the exit value', 'expect': 'C01.4',
     'edits': [(SCHED, "  th = env->this_thread;\n  th->result = ret;\n  myth_entry_point_cleanup(th);", "  th = env->this_thread;\n  myth_entry_point_cleanup(th);")]},
    {'name': 'entry point re-reads the current thread after the user function (seed C01/m3)', 'expect': 'C01.4',
     'edits': [(SCHED, "  this_thread->result=(*(this_thread->entry_func))(this_thread->result);\n  myth_entry_point_cleanup(this_thread);", "  this_thread->result=(*(this_thread->entry_func))(this_thread->result);\n  myth_entry_point_cleanup(env->this_thread);")]},
    {'name': 'join releases the record through the env cached before the switch (seed C01/m1)', 'expect': 'C01.8',
     'edits': [(SCHED, "  myth_join_1(myth_get_current_env_noinline(),th,result);", "  myth_join_1(env,th,result);")]},
    {'name': 'join_2 unlocks before registering the waiter', 'expect': 'C01.5',
     'edits': [(SCHED, "  myth_desc_join_set(th,env->this_thread);\n  myth_spin_unlock_body(&th->lock);\n  //Change current running thread\n  env->this_thread=next_thread;",
                "  myth_spin_unlock_body(&th->lock);\n  myth_desc_join_set(th,env->this_thread);\n  //Change current running thread\n  env->this_thread=next_thread;")]},
    {'name': 'join registers the waiter before switching (not in callback)', 'expect': ['C01.5', 'C03.7'],
     'edits': [(SCHED, "  //Set current thread as blocked\n  myth_desc_set_not_runnable(this_thread);",
                "  //Set current thread as blocked\n  myth_desc_set_not_runnable(this_thread);\n  myth_desc_join_set(th,this_thread);\n  myth_spin_unlock_body(&th->lock);")]},
    {'name': 'tryjoin reads the result before FREE_READY2', 'expect': 'C01.5',
     'edits': [(SCHED, "    myth_spin_unlock_body(&th->lock);\n    while (th->status != MYTH_STATUS_FREE_READY2) { }\n    myth_join_1(env,th,result);\n    //myth_log_add(env,MYTH_LOG_USER);\n    return 0;\n  } else {",
                "    myth_spin_unlock_body(&th->lock);\n    myth_join_1(env,th,result);\n    return 0;\n  } else {")]},
    {'name': 'join tests finished without the lock', 'expect': 'C01.5',
     'edits': [(SCHED, "  //Obtain lock and check again\n  myth_spin_lock_body(&th->lock);\n  //If target is finished, return\n  if (myth_desc_is_finished(th)){\n#if MYTH_DEBUG_JOIN_FCC",
                "  //If target is finished, return\n  if (myth_desc_is_finished(th)){\n    myth_spin_lock_body(&th->lock);\n#if MYTH_DEBUG_JOIN_FCC"),
               (SCHED, "  //Set current thread as blocked\n  myth_desc_set_not_runnable(this_thread);", "  myth_spin_lock_body(&th->lock);\n  myth_desc_set_not_runnable(this_thread);")]},
    {'name': 'entry_point_1 unlocks before publishing FREE_READY2', 'expect': 'C01.6',
     'edits': [(SCHED, "    this_thread->status=MYTH_STATUS_FREE_READY2;\n    myth_spin_unlock_body(&this_thread->lock);\n#endif\n  }\n  env->this_thread = next_thread;",
                "    myth_spin_unlock_body(&this_thread->lock);\n    this_thread->status=MYTH_STATUS_FREE_READY2;\n#endif\n  }\n  env->this_thread = next_thread;")]},
    {'name': 'cleanup reads join_thread before locking', 'expect': 'C01.6',
     'edits': [(SCHED, "  myth_spin_lock_body(&this_thread->lock);\n  myth_thread_t wait_thread = this_thread_v->join_thread;",
                "  myth_thread_t wait_thread = this_thread_v->join_thread;\n  myth_spin_lock_body(&this_thread->lock);")]},
    {'name': 'cleanup resumes the waiter without marking it READY/rebinding env', 'expect': 'C01.6',
     'edits': [(SCHED, "    wait_thread->env = env;\n    wait_thread->status = MYTH_STATUS_READY;", "    wait_thread->status = MYTH_STATUS_READY;")]},
    {'name': 'spin_unlock without the fence', 'expect': 'C01.7',
     'edits': [(SPIN, "static inline int myth_spin_unlock_body(myth_spinlock_t *lock) {\n  myth_rwbarrier();\n", "static inline int myth_spin_unlock_body(myth_spinlock_t *lock) {\n")]},
    {'name': 'rwbarrier emptied (compiler barrier only)', 'expect': 'C01.7',
     'edits': [('src/myth_mem_barrier_func.h', 'static inline void myth_rbarrier() {\n  int x=0, y=0;\n  asm volatile("xchgl %0,%1":"=r"(x):"m"(y),"0"(x):"memory");\n}',
                'static inline void myth_rbarrier() {\n  asm volatile("":::"memory");\n}')]},
]
