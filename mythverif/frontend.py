"""Front end: derive the compile commands of /repo from its (generated)
Makefiles *by reading them* (never by running make: `make -n -B` re-runs
autoreconf/config.status in the tree), compile each translation unit with
clang-14 to LLVM IR in the requested normal forms and run the fact extractor.

Nothing of /repo is executed and nothing is written into /repo.
"""
import json
import os
import re
import shutil
import subprocess
import sys
import tempfile
from concurrent.futures import ThreadPoolExecutor

VERIF = os.path.dirname(os.path.dirname(os.path.abspath(__file__)))
REPO = os.environ.get('MYTHVERIF_REPO', '/repo')
CLANG = 'clang-14'
CLANGXX = 'clang++-14' if shutil.which('clang++-14') else 'clang++'
OPT = 'opt-14'
MYTHIR = os.path.join(VERIF, 'engine', 'mythir')


class AnalysisBroken(Exception):
    """The analysis itself could not be carried out (exit code 2)."""


# ---------------------------------------------------------------------------
# Makefile reading
# ---------------------------------------------------------------------------

def read_make_vars(path):
    vars_ = {}
    try:
        text = open(path, errors='replace').read()
    except OSError:
        return vars_
    text = text.replace('\\\n', ' ')
    for line in text.split('\n'):
        if line.startswith('\t') or line.startswith('#'):
            continue
        m = re.match(r'^([A-Za-z_][A-Za-z0-9_]*)\s*(\+?=|:=)\s*(.*)$', line)
        if not m:
            continue
        k, op, v = m.group(1), m.group(2), m.group(3).strip()
        if op == '+=' and k in vars_:
            vars_[k] = vars_[k] + ' ' + v
        else:
            vars_[k] = v
    return vars_


def expand(vars_, s, depth=0):
    if depth > 20:
        return s

    def rep(m):
        return expand(vars_, vars_.get(m.group(1), ''), depth + 1)
    return re.sub(r'\$[({]([A-Za-z_][A-Za-z0-9_]*)[)}]', rep, s)


FALLBACK_COMMON = ['-DHAVE_CONFIG_H', '-I.', '-D_GNU_SOURCE', '-D_XOPEN_SOURCE',
                   '-D_DARWIN_C_SOURCE', '-I%s/include' % REPO]
FALLBACK_SRCS = ['myth_log.c', 'myth_sched.c', 'myth_internal_barrier.c', 'myth_bind_worker.c',
                 'myth_worker.c', 'myth_sync.c', 'myth_init.c', 'myth_misc.c', 'myth_context.c',
                 'myth_thread.c', 'myth_tls.c', 'myth_eco.c', 'myth_real.c', 'myth_if_native.c']
FALLBACK_WRAP = ['myth_wrap_pthread.c', 'myth_wrap_malloc.c', 'myth_wrap_socket.c']
FLAVOURS = {'vanilla': ('libmyth_la', 'MYTH_WRAP_VANILLA'),
            'ld': ('libmyth_ld_la', 'MYTH_WRAP_LD'),
            'dl': ('libmyth_dl_la', 'MYTH_WRAP_DL')}


def compile_db(repo=None):
    repo = repo or REPO
    """Return {'src': {flavour: {file: [flags]}}, 'profiler': {file: [flags]},
    'origin': 'Makefile'|'fallback'} for the configured tree."""
    src = os.path.join(repo, 'src')
    mv = read_make_vars(os.path.join(src, 'Makefile'))
    db = {'src': {}, 'profiler': {}, 'origin': 'Makefile'}
    ok = bool(mv.get('COMMON_SRCS'))
    if not ok:
        db['origin'] = 'fallback'
    for fl, (lib, wrapdef) in FLAVOURS.items():
        if ok:
            srcs = expand(mv, mv.get(lib + '_SOURCES', '')).split()
            flags = []
            for v in ('DEFS', 'DEFAULT_INCLUDES', 'INCLUDES', 'AM_CPPFLAGS', 'CPPFLAGS',
                      lib + '_CFLAGS', 'CFLAGS'):
                flags += expand(mv, mv.get(v, '')).split()
            flags = [f.replace('$(top_srcdir)', repo) for f in flags]
            flags = [('-I' + repo + f[2 + len(REPO):]) if f.startswith('-I' + REPO + '/') else f for f in flags]
            # a scratch copy carries the Makefile of the configured tree: its absolute include directories name that tree
            for top in set(x for x in (mv.get('abs_top_srcdir'), mv.get('abs_top_builddir'), '/repo') if x and x != repo):
                flags = [('-I' + repo + f[2 + len(top):]) if f.startswith('-I' + top + '/') else f for f in flags]
        else:
            srcs = FALLBACK_SRCS + (FALLBACK_WRAP if fl != 'vanilla' else [])
            flags = [f.replace(REPO, repo) for f in FALLBACK_COMMON] + ['-DMYTH_WRAP=' + wrapdef]
        fixed = []
        for f in flags:
            if f.startswith('-I') and not os.path.isabs(f[2:]):
                f = '-I' + os.path.normpath(os.path.join(src, f[2:]))
            fixed.append(f)
        fixed += ['-fPIC', '-DPIC']  # libtool adds these for the shared objects
        db['src'][fl] = {s: list(fixed) for s in srcs if s.endswith('.c')}
    pdir = os.path.join(src, 'profiler')
    pv = read_make_vars(os.path.join(pdir, 'Makefile'))
    psrcs = expand(pv, pv.get('libdr_la_SOURCES', '')).split()
    if not psrcs:
        psrcs = ['dag_recorder.c', 'dag_recorder_no_inl.c', 'chronological.c', 'dr_dump.c',
                 'gen_stat.c', 'gen_dot.c', 'gen_gpl.c', 'gen_text.c', 'read_dag.c', 'options.c',
                 'interpolate_counters.c', 'papi_counters.c']
    pflags = ['-DHAVE_CONFIG_H', '-I' + pdir, '-I' + src, '-fPIC', '-DPIC']
    db['profiler'] = {s: list(pflags) for s in psrcs if s.endswith('.c')}
    return db


# ---------------------------------------------------------------------------
# IR construction
# ---------------------------------------------------------------------------

class Workdir:
    def __init__(self):
        self.path = tempfile.mkdtemp(prefix='mythverif-')

    def cleanup(self):
        shutil.rmtree(self.path, ignore_errors=True)


def _run(cmd, cwd=None):
    p = subprocess.run(cmd, cwd=cwd, stdout=subprocess.PIPE, stderr=subprocess.PIPE, text=True)
    return p.returncode, p.stdout, p.stderr


def build_unit(wd, srcdir, srcfile, flags, tag, forms=('ssa',), cxx=False, scev=True, extra=()):
    """Compile one TU; returns {form: json-path}.  Raises AnalysisBroken."""
    base = os.path.join(wd.path, '%s.%s' % (tag, re.sub(r'[^A-Za-z0-9_]', '_', srcfile)))
    cc = CLANGXX if cxx else CLANG
    out = {}
    raw = base + '.raw.ll'
    cmd = [cc] + list(flags) + list(extra) + ['-w', '-O1', '-U__OPTIMIZE__', '-g', '-Xclang', '-disable-llvm-passes', '-Xclang', '-disable-lifetime-markers',
                                              '-S', '-emit-llvm',
                                              srcfile, '-o', raw]
    rc, so, se = _run(cmd, cwd=srcdir)
    if rc != 0:
        raise AnalysisBroken('clang failed on %s (%s):\n%s' % (srcfile, tag, se[-2000:]))
    for form in forms:
        if form == 'raw':
            ll = raw
        elif form == 'ssa':
            ll = base + '.ssa.ll'
            rc, so, se = _run([OPT, '-passes=function(sroa,loop-simplify,lcssa)', raw, '-S', '-o', ll])
            if rc != 0:
                raise AnalysisBroken('opt failed on %s: %s' % (srcfile, se[-1000:]))
        elif form == 'o2':
            ll = base + '.o2.ll'
            cmd = [cc] + list(flags) + list(extra) + ['-w', '-O2', '-g', '-S', '-emit-llvm', srcfile, '-o', ll]
            rc, so, se = _run(cmd, cwd=srcdir)
            if rc != 0:
                raise AnalysisBroken('clang -O2 failed on %s: %s' % (srcfile, se[-1000:]))
        else:
            raise ValueError(form)
        js = ll[:-3] + '.json'
        cmd = [MYTHIR, ll, js] + (['--scev'] if scev and form != 'raw' else [])
        rc, so, se = _run(cmd)
        if rc != 0:
            raise AnalysisBroken('mythir failed on %s: %s' % (ll, se[-1000:]))
        out[form] = js
    return out


def ensure_engine():
    if not os.path.exists(MYTHIR):
        raise AnalysisBroken('engine/mythir not built; run MANIFEST.setup_cmd (make -C /verif/engine)')


def build_many(wd, jobs, nproc=16):
    """jobs: list of dict(srcdir, srcfile, flags, tag, forms, cxx).  Returns
    {(tag, srcfile): {form: jsonpath}}"""
    ensure_engine()
    res = {}
    with ThreadPoolExecutor(max_workers=nproc) as ex:
        futs = {}
        for j in jobs:
            futs[ex.submit(build_unit, wd, j['srcdir'], j['srcfile'], j['flags'], j['tag'],
                           tuple(j.get('forms', ('ssa',))), j.get('cxx', False),
                           j.get('scev', True), tuple(j.get('extra', ())))] = j
        for f, j in futs.items():
            res[(j['tag'], j['srcfile'])] = f.result()
    return res
