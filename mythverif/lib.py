"""Shared static-analysis helpers built on ir.py (repository specific)."""
import re

from .ir import (classify_asm, asm_callback, asm_lines, const_int, refkey, keyref, Inst)
from .frontend import AnalysisBroken

SPIN_LOCK = 'myth_spin_lock_body'
SPIN_TRYLOCK = 'myth_spin_trylock_body'
SPIN_UNLOCK = 'myth_spin_unlock_body'
SPIN_STOPS = (SPIN_LOCK, SPIN_TRYLOCK, SPIN_UNLOCK)

# run-queue operations of the owner / of others
RUNQ_INSERT = ('myth_queue_push', 'myth_queue_put', 'myth_queue_pass', 'myth_queue_trypass')
RUNQ_REMOVE = ('myth_queue_pop', 'myth_queue_take')

REG_ALIASES = {'ax': 'rax', 'bx': 'rbx', 'cx': 'rcx', 'dx': 'rdx', 'si': 'rsi', 'di': 'rdi', 'bp': 'rbp',
               'sp': 'rsp'}
CONSTRAINT_LETTER = {'a': 'rax', 'b': 'rbx', 'c': 'rcx', 'd': 'rdx', 'S': 'rsi', 'D': 'rdi'}


def norm_reg(r):
    r = r.strip('{}% ')
    r = REG_ALIASES.get(r, r)
    if r.startswith('e') and len(r) == 3:
        r = 'r' + r[1:]
    return r


def parse_constraints(cs):
    """LLVM constraint string -> (outputs, inputs, clobbers); each output/input
    is dict(reg=.. or None, kind='reg'|'mem'|'any'|'tied', tied=index)"""
    outs, ins, clob = [], [], []
    for c in cs.split(','):
        c = c.strip()
        if not c:
            continue
        if c.startswith('~'):
            clob.append(norm_reg(c[1:]))
            continue
        is_out = c.startswith('=') or c.startswith('+')
        body = c.lstrip('=+&%*')
        ent = {'raw': c, 'reg': None, 'kind': 'any', 'early': '&' in c[:3]}
        m = re.match(r'^\{([^}]+)\}$', body)
        if m:
            ent['reg'] = norm_reg(m.group(1))
            ent['kind'] = 'reg'
        elif re.match(r'^\d+$', body):
            ent['kind'] = 'tied'
            ent['tied'] = int(body)
        elif body in ('r', 'q', 'l', 'R', 'Q'):
            ent['kind'] = 'anyreg'
        elif body.startswith('m') or body.startswith('*m') or body in ('o', 'V', 'g', 'X', 'imr', 'rm', 'mr'):
            ent['kind'] = 'mem' if body.startswith('m') else 'any'
        elif body in CONSTRAINT_LETTER:
            ent['reg'] = CONSTRAINT_LETTER[body]
            ent['kind'] = 'reg'
        (outs if is_out else ins).append(ent)
    for e in ins:
        if e['kind'] == 'tied' and e['tied'] < len(outs):
            e['reg'] = outs[e['tied']]['reg']
    return outs, ins, clob


def asm_reg_args(ins):
    """{register: argument ref} for the input operands of an inline-asm call"""
    outs, inputs, clob = parse_constraints(ins.constraints)
    m = {}
    for e, a in zip(inputs, ins.args):
        if e['reg']:
            m[e['reg']] = a
    return m


class SwitchSite:
    """a context-switch asm site"""

    def __init__(self, ins):
        self.ins = ins
        self.kind = classify_asm(ins.asm, ins.constraints)
        self.callback = asm_callback(ins.asm)
        self.regs = asm_reg_args(ins)

    @property
    def cb_args(self):
        """(arg1,arg2,arg3) refs handed to the callback (rdi,rsi,rdx)"""
        return (self.regs.get('rdi'), self.regs.get('rsi'), self.regs.get('rdx'))

    @property
    def is_swap(self):
        return self.kind in ('swap_context', 'swap_context_withcall')

    @property
    def is_final(self):
        return self.kind in ('set_context', 'set_context_withcall')

    def from_ctx(self):
        return self.regs.get('rax') if self.is_swap else None

    def to_ctx(self):
        return self.regs.get('rcx') if self.kind == 'swap_context_withcall' else (
            self.regs.get('rdx') if self.kind == 'swap_context' else self.regs.get('rax'))


def switch_sites(fn):
    out = []
    for i in fn.order:
        if i.op == 'call' and i.asm is not None:
            k = classify_asm(i.asm, i.constraints)
            if k in ('swap_context', 'swap_context_withcall', 'set_context', 'set_context_withcall'):
                out.append(SwitchSite(i))
    return out


def fences(fn, kinds=('fence_full',)):
    out = []
    for i in fn.order:
        if i.op == 'fence' and 'fence_full' in kinds and i.d.get('ordering') == 'seq_cst' \
                and not i.d.get('singlethread'):
            out.append(i)
        elif i.op == 'call' and i.asm is not None and classify_asm(i.asm, i.constraints) in kinds:
            out.append(i)
        elif i.op in ('atomicrmw', 'cmpxchg') and 'fence_full' in kinds and i.d.get('ordering') == 'seq_cst':
            # a lock-prefixed RMW is a full barrier on x86
            out.append(i)
    return out


def same_value(fn, r1, r2):
    """r1 and r2 denote the same run-time value on every path (through casts / single-source phis)"""
    s1 = fn.sources(r1)
    s2 = fn.sources(r2)
    return len(s1) == 1 and s1 == s2


def flows_only_from(fn, ref, origin_ref):
    s = fn.sources(ref)
    return s == fn.sources(origin_ref) and len(s) >= 1


def null_tests(fn, ref):
    """[(br_inst, nonnull_block, null_block)] for every branch that tests a value
    identical to `ref` against null/zero"""
    out = []
    want = fn.sources(ref)
    for ins in fn.order:
        if ins.op != 'icmp' or ins.pred not in ('eq', 'ne'):
            continue
        a, b = ins.ops
        for x, y in ((a, b), (b, a)):
            if isinstance(y, dict) and (y.get('null') or y.get('c') == 0):
                if fn.sources(x) == want:
                    for br, t, f in fn.cond_edges(ins.id):
                        if ins.pred == 'ne':
                            out.append((br, t, f))
                        else:
                            out.append((br, f, t))
    return out


def first_inst(fn, bid):
    return fn.blocks[bid].insts[0]


def guarded_by_nonnull(fn, ref, target):
    """target instruction executes only on a path where `ref` was tested non-null"""
    for br, nn, nl in null_tests(fn, ref):
        if nn != nl and fn.edge_dominates(br.block.id, nn, target):
            return True
    return False


def guarded_by_null(fn, ref, target):
    for br, nn, nl in null_tests(fn, ref):
        if nn != nl and fn.edge_dominates(br.block.id, nl, target):
            return True
    return False


def call_sites(fn, names):
    if isinstance(names, str):
        names = (names,)
    return [i for i in fn.order if i.op == 'call' and i.callee in names]


def cmpxchg_sites(fn, field=None):
    out = []
    for i in fn.order:
        if i.op == 'cmpxchg' and (field is None or fn.field(i) == field):
            out.append(i)
    return out


def cas_success(fn, cas):
    """refs of the i1 success flag of a cmpxchg"""
    out = []
    for u in fn.users(cas.id):
        if u.op == 'extractvalue' and u.d.get('indices') == [1]:
            out.append(u.id)
    return out


def on_cas_success(fn, cas, target):
    for s in cas_success(fn, cas):
        # the flag may be zext'ed and compared again (from __sync_bool_compare_and_swap -> int)
        for cond in cond_chain(fn, s):
            if fn.on_edge(cond[0], cond[1], target):
                return True
    return False


def on_cas_failure(fn, cas, target):
    for s in cas_success(fn, cas):
        for cond in cond_chain(fn, s):
            if fn.on_edge(cond[0], not cond[1], target):
                return True
    return False


def cond_chain(fn, ref, polarity=True, depth=0):
    """all (cond_ref, polarity) pairs equivalent to `ref` being true: follows
    zext / icmp ne 0 / icmp eq 0 / xor true chains"""
    out = [(ref, polarity)]
    if depth > 6:
        return out
    for u in fn.users(ref):
        if u.op in ('zext', 'sext', 'trunc', 'freeze'):
            out += cond_chain(fn, u.id, polarity, depth + 1)
        elif u.op == 'icmp' and u.pred in ('ne', 'eq'):
            other = [o for o in u.ops if o != ref]
            if other and isinstance(other[0], dict) and other[0].get('c') == 0:
                out += cond_chain(fn, u.id, polarity if u.pred == 'ne' else not polarity, depth + 1)
        elif u.op == 'xor':
            other = [o for o in u.ops if o != ref]
            if other and isinstance(other[0], dict) and other[0].get('c') in (1, -1):
                out += cond_chain(fn, u.id, not polarity, depth + 1)
        elif u.op == 'phi' and len(u.d['incoming']) == 1:
            out += cond_chain(fn, u.id, polarity, depth + 1)
    return out


def lines(path):
    from .ir import Function
    return Function.path_lines(path)


def in_any_loop(fn, ins):
    return fn.in_loop(ins)


def loop_containing(fn, ins):
    k = fn.loop_of_block(ins.block.id)
    return fn.loops[k] if k is not None else None


def arg_is_field_of(fn, ref, field):
    """pointer `ref` is the address of struct field `field` (e.g. 'myth_running_env.runnable_q')"""
    a = fn.ap(ref)
    return bool(a.fields) and a.fields[-1] == field


def describe(fn, ref):
    if isinstance(ref, dict):
        if 'c' in ref:
            return str(ref['c'])
        if 'fn' in ref:
            return '&' + ref['fn']
        if 'g' in ref:
            return '@' + ref['g']
        return str(ref)
    ins = fn.insts.get(ref)
    if ins is None:
        idx = fn.param_index(ref)
        if idx is not None and idx < len(fn.params):
            return 'param ' + (fn.params[idx]['name'] or ref)
        return ref
    v = fn.var(ref)
    if ins.op in ('getelementptr', 'bitcast'):
        return '&' + fn.ap(ref).desc()
    if ins.op == 'load':
        return fn.ap(ins.ops[0]).desc()
    if ins.op == 'call':
        return '%s(...)' % (ins.callee or 'asm')
    return v or '%s@%s' % (ins.op, ins.loc)
