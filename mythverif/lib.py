"""Shared static-analysis helpers built on ir.py (repository specific)."""
import re

from .ir import (classify_asm, asm_callback, asm_lines, const_int, refkey, keyref, Inst, EdgePoint, eval_icmp)
from .frontend import AnalysisBroken

SPIN_LOCK = 'myth_spin_lock_body'
SPIN_TRYLOCK = 'myth_spin_trylock_body'
SPIN_UNLOCK = 'myth_spin_unlock_body'
SPIN_STOPS = (SPIN_LOCK, SPIN_TRYLOCK, SPIN_UNLOCK)

# run-queue operations of the owner / of others
RUNQ_INSERT = ('myth_queue_push', 'myth_queue_put', 'myth_queue_pass', 'myth_queue_trypass')
RUNQ_REMOVE = ('myth_queue_pop', 'myth_queue_take')

REG_ALIASES = {'ax': 'rax', 'bx': 'rbx', 'cx': 'rcx', 'dx': 'rdx', 'si': 'rsi', 'di': 'rdi', 'bp': 'rbp',
               'sp': 'rsp'}
CONSTRAINT_LETTER = {'a': 'rax', 'b': 'rbx', 'c': 'rcx', 'd': 'rdx', 'S': 'rsi', 'D': 'rdi'}


def norm_reg(r):
    r = r.strip('{}% ')
    r = REG_ALIASES.get(r, r)
    if r.startswith('e') and len(r) == 3:
        r = 'r' + r[1:]
    return r


def parse_constraints(cs):
    """LLVM constraint string -> (outputs, inputs, clobbers); each output/input
    is dict(reg=.. or None, kind='reg'|'mem'|'any'|'tied', tied=index)"""
    outs, ins, clob = [], [], []
    for c in cs.split(','):
        c = c.strip()
        if not c:
            continue
        if c.startswith('~'):
            clob.append(norm_reg(c[1:]))
            continue
        is_out = c.startswith('=') or c.startswith('+')
        body = c.lstrip('=+&%*')
        ent = {'raw': c, 'reg': None, 'kind': 'any', 'early': '&' in c[:3]}
        m = re.match(r'^\{([^}]+)\}$', body)
        if m:
            ent['reg'] = norm_reg(m.group(1))
            ent['kind'] = 'reg'
        elif re.match(r'^\d+$', body):
            ent['kind'] = 'tied'
            ent['tied'] = int(body)
        elif body in ('r', 'q', 'l', 'R', 'Q'):
            ent['kind'] = 'anyreg'
        elif body.startswith('m') or body.startswith('*m') or body in ('o', 'V', 'g', 'X', 'imr', 'rm', 'mr'):
            ent['kind'] = 'mem' if body.startswith('m') else 'any'
        elif body in CONSTRAINT_LETTER:
            ent['reg'] = CONSTRAINT_LETTER[body]
            ent['kind'] = 'reg'
        (outs if is_out else ins).append(ent)
    for e in ins:
        if e['kind'] == 'tied' and e['tied'] < len(outs):
            e['reg'] = outs[e['tied']]['reg']
    return outs, ins, clob


def asm_reg_args(ins):
    """{register: argument ref} for the input operands of an inline-asm call"""
    outs, inputs, clob = parse_constraints(ins.constraints)
    m = {}
    for e, a in zip(inputs, ins.args):
        if e['reg']:
            m[e['reg']] = a
    return m


class SwitchSite:
    """a context-switch asm site"""

    def __init__(self, ins):
        self.ins = ins
        self.kind = classify_asm(ins.asm, ins.constraints)
        self.callback = asm_callback(ins.asm)
        self.regs = asm_reg_args(ins)

    @property
    def cb_args(self):
        """(arg1,arg2,arg3) refs handed to the callback (rdi,rsi,rdx)"""
        return (self.regs.get('rdi'), self.regs.get('rsi'), self.regs.get('rdx'))

    @property
    def is_swap(self):
        return self.kind in ('swap_context', 'swap_context_withcall')

    @property
    def is_final(self):
        return self.kind in ('set_context', 'set_context_withcall')

    def from_ctx(self):
        return self.regs.get('rax') if self.is_swap else None

    def to_ctx(self):
        return self.regs.get('rcx') if self.kind == 'swap_context_withcall' else (
            self.regs.get('rdx') if self.kind == 'swap_context' else self.regs.get('rax'))


def switch_sites(fn):
    out = []
    for i in fn.order:
        if i.op == 'call' and i.asm is not None:
            k = classify_asm(i.asm, i.constraints)
            if k in ('swap_context', 'swap_context_withcall', 'set_context', 'set_context_withcall'):
                out.append(SwitchSite(i))
    return out


def fences(fn, kinds=('fence_full',)):
    out = []
    for i in fn.order:
        if i.op == 'fence' and 'fence_full' in kinds and i.d.get('ordering') == 'seq_cst' \
                and not i.d.get('singlethread'):
            out.append(i)
        elif i.op == 'call' and i.asm is not None and classify_asm(i.asm, i.constraints) in kinds:
            out.append(i)
        elif i.op in ('atomicrmw', 'cmpxchg') and 'fence_full' in kinds and i.d.get('ordering') == 'seq_cst':
            # a lock-prefixed RMW is a full barrier on x86
            out.append(i)
    return out


def same_value(fn, r1, r2):
    """r1 and r2 denote the same run-time value on every path (through casts / single-source phis)"""
    s1 = fn.sources(r1)
    s2 = fn.sources(r2)
    return len(s1) == 1 and s1 == s2


def flows_only_from(fn, ref, origin_ref):
    s = fn.sources(ref)
    return s == fn.sources(origin_ref) and len(s) >= 1


def null_tests(fn, ref):
    """[(br_inst, nonnull_block, null_block)] for every branch that tests a value
    identical to `ref` against null/zero"""
    out = []
    want = fn.sources(ref)

    def nonnull_sources(v):
        # phi(NULL, x) tested against NULL is a test of x (loop-carried "not yet found" initialisers)
        return set(k for k in fn.sources(v) if not (k.startswith('{') and ('"null": true' in k or '"c": 0' in k)))
    def spin_phi(x):
        # x is the loop-carried variable of the innermost loop that contains the producing instruction
        # (while (!v) v = produce();), not some other variable that merely holds an older result
        xi = fn.insts.get(fn.strip(x))
        while xi is not None and xi.op == 'phi' and len(xi.d['incoming']) == 1:
            xi = fn.insts.get(fn.strip(xi.d['incoming'][0][0]))
        if xi is None or xi.op != 'phi':
            return False
        for k in want:
            d = fn.insts.get(k)
            if d is None:
                return False
            li = fn.loop_of_block(d.block.id)
            if li is None or fn.loops[li]['header'] != xi.block.id:
                return False
        return True
    for ins in fn.order:
        if ins.op != 'icmp' or ins.pred not in ('eq', 'ne'):
            continue
        a, b = ins.ops
        for x, y in ((a, b), (b, a)):
            if isinstance(y, dict) and (y.get('null') or y.get('c') == 0):
                if fn.sources(x) == want or (isinstance(x, str) and nonnull_sources(x) == want and spin_phi(x)):
                    for cond, pol in cond_chain(fn, ins.id):
                        for br, t, f in fn.cond_edges(cond):
                            # (cond true) == (icmp true) iff pol
                            istrue_t, istrue_f = (t, f) if pol else (f, t)
                            if ins.pred == 'ne':
                                out.append((br, istrue_t, istrue_f))
                            else:
                                out.append((br, istrue_f, istrue_t))
    return out


def first_inst(fn, bid):
    return fn.blocks[bid].insts[0]


def guarded_by_nonnull(fn, ref, target):
    """target instruction executes only on a path where `ref` was tested non-null"""
    for br, nn, nl in null_tests(fn, ref):
        if nn != nl and fn.edge_dominates(br.block.id, nn, target):
            return True
    return False


def guarded_by_null(fn, ref, target):
    for br, nn, nl in null_tests(fn, ref):
        if nn != nl and fn.edge_dominates(br.block.id, nl, target):
            return True
    return False


def call_sites(fn, names):
    if isinstance(names, str):
        names = (names,)
    return [i for i in fn.order if i.op == 'call' and i.callee in names]


def cmpxchg_sites(fn, field=None):
    out = []
    for i in fn.order:
        if i.op == 'cmpxchg' and (field is None or fn.field(i) == field):
            out.append(i)
    return out


def cas_success(fn, cas):
    """refs of the i1 success flag of a cmpxchg"""
    out = []
    for u in fn.users(cas.id):
        if u.op == 'extractvalue' and u.d.get('indices') == [1]:
            out.append(u.id)
    return out


def on_cas_success(fn, cas, target):
    for s in cas_success(fn, cas):
        # the flag may be zext'ed and compared again (from __sync_bool_compare_and_swap -> int)
        for cond in cond_chain(fn, s):
            if fn.on_edge(cond[0], cond[1], target):
                return True
    return False


def on_cas_failure(fn, cas, target):
    for s in cas_success(fn, cas):
        for cond in cond_chain(fn, s):
            if fn.on_edge(cond[0], not cond[1], target):
                return True
    return False


def cond_chain(fn, ref, polarity=True, depth=0):
    """all (cond_ref, polarity) pairs equivalent to `ref` being true: follows
    zext / icmp ne 0 / icmp eq 0 / xor true chains"""
    out = [(ref, polarity)]
    if depth > 6:
        return out
    for u in fn.users(ref):
        if u.op in ('zext', 'sext', 'trunc', 'freeze'):
            out += cond_chain(fn, u.id, polarity, depth + 1)
        elif u.op == 'icmp' and u.pred in ('ne', 'eq'):
            other = [o for o in u.ops if o != ref]
            if other and isinstance(other[0], dict) and other[0].get('c') == 0:
                out += cond_chain(fn, u.id, polarity if u.pred == 'ne' else not polarity, depth + 1)
        elif u.op == 'xor':
            other = [o for o in u.ops if o != ref]
            if other and isinstance(other[0], dict) and other[0].get('c') in (1, -1):
                out += cond_chain(fn, u.id, not polarity, depth + 1)
        elif u.op == 'phi' and len(u.d['incoming']) == 1:
            out += cond_chain(fn, u.id, polarity, depth + 1)
    return out


def lines(path):
    from .ir import Function
    return Function.path_lines(path)


def in_any_loop(fn, ins):
    return fn.in_loop(ins)


def loop_containing(fn, ins):
    k = fn.loop_of_block(ins.block.id)
    return fn.loops[k] if k is not None else None


def arg_is_field_of(fn, ref, field):
    """pointer `ref` is the address of struct field `field` (e.g. 'myth_running_env.runnable_q')"""
    fn.mod.check_fields(field)
    a = fn.ap(ref)
    return bool(a.fields) and a.fields[-1] == field


def describe(fn, ref):
    if isinstance(ref, dict):
        if 'c' in ref:
            return str(ref['c'])
        if 'fn' in ref:
            return '&' + ref['fn']
        if 'g' in ref:
            return '@' + ref['g']
        return str(ref)
    ins = fn.insts.get(ref)
    if ins is None:
        idx = fn.param_index(ref)
        if idx is not None and idx < len(fn.params):
            return 'param ' + (fn.params[idx]['name'] or ref)
        return ref
    v = fn.var(ref)
    if ins.op in ('getelementptr', 'bitcast'):
        return '&' + fn.ap(ref).desc()
    if ins.op == 'load':
        return fn.ap(ins.ops[0]).desc()
    if ins.op == 'call':
        return '%s(...)' % (ins.callee or 'asm')
    return v or '%s@%s' % (ins.op, ins.loc)


# ---------------------------------------------------------------------------
# lock typestate (P5): forward may/must dataflow of held spin locks
# ---------------------------------------------------------------------------

class LockAnalysis:
    """must/may-held lock sets before every instruction of `fn`.
    Lock identity = structural access path of the pointer argument.
    trylock acquires on the edge where its result is tested non-zero."""

    def __init__(self, fn, initial=(), lock=(SPIN_LOCK,), trylock=(SPIN_TRYLOCK,), unlock=(SPIN_UNLOCK,)):
        self.fn = fn
        self.lock, self.trylock, self.unlock = lock, trylock, unlock
        self.names = {}
        self.must_in = {}
        self.may_in = {}
        self.double_unlock = []
        self.unheld_unlock = []
        self.relock = []
        self._edge_acq = {}   # (block, succ) -> set(keys)
        self._prepare()
        self._solve(frozenset(initial))

    def key_of(self, ptr):
        ap = self.fn.ap(ptr)
        k = ap.key()
        self.names.setdefault(k, ap.desc())
        return k

    def _prepare(self):
        fn = self.fn
        for c in fn.order:
            if c.op == 'call' and c.callee in self.trylock:
                k = self.key_of(c.args[0])
                for cond, pol in cond_chain(fn, c.id):
                    for br, t, f in fn.cond_edges(cond):
                        if t == f:
                            continue
                        self._edge_acq.setdefault((br.block.id, t if pol else f), set()).add(k)

    def _transfer(self, ins, must, may, record=False):
        if ins.op == 'call':
            if ins.callee in self.lock:
                k = self.key_of(ins.args[0])
                if record and k in must:
                    self.relock.append(ins)
                must = must | {k}
                may = may | {k}
            elif ins.callee in self.unlock:
                k = self.key_of(ins.args[0])
                if record and k not in may:
                    self.double_unlock.append(ins)
                elif record and k not in must:
                    # held on some of the paths that reach this release only: the others store "unlocked" into a lock they never
                    # took (and that another thread may be holding)
                    self.unheld_unlock.append(ins)
                must = must - {k}
                may = may - {k}
        return must, may

    def _solve(self, initial):
        fn = self.fn
        TOP = None
        bin_must = {b.id: TOP for b in fn.blocks}
        bin_may = {b.id: frozenset() for b in fn.blocks}
        bin_must[0] = initial
        bin_may[0] = initial
        work = [0]
        visited = set()
        iters = 0
        while work and iters < 20000:
            iters += 1
            bid = work.pop()
            b = fn.blocks[bid]
            must, may = bin_must[bid], bin_may[bid]
            if must is TOP:
                continue
            dead = False
            for ins in b.insts:
                if fn.is_noreturn(ins):
                    dead = True
                    break
                must, may = self._transfer(ins, must, may)
            visited.add(bid)
            if dead:
                continue
            for s in fn.succs(b):
                acq = self._edge_acq.get((bid, s), set())
                m2, y2 = must | acq, may | acq
                old_m, old_y = bin_must[s], bin_may[s]
                new_m = m2 if old_m is TOP else (old_m & m2)
                new_y = old_y | y2
                if new_m != old_m or new_y != old_y or s not in visited:
                    bin_must[s], bin_may[s] = frozenset(new_m), frozenset(new_y)
                    if s not in work:
                        work.append(s)
        # final pass: per instruction states + diagnostics
        for b in fn.blocks:
            must, may = bin_must[b.id], bin_may[b.id]
            if must is TOP:
                continue
            for ins in b.insts:
                self.must_in[ins.id] = must
                self.may_in[ins.id] = may
                if fn.is_noreturn(ins):
                    break
                must, may = self._transfer(ins, must, may, record=True)

    def held_must(self, ins, key=None):
        s = self.must_in.get(ins.id)
        if s is None:
            return True if key is not None else frozenset()  # unreachable code
        return (key in s) if key is not None else s

    def held_may(self, ins):
        return self.may_in.get(ins.id, frozenset())

    def name(self, k):
        return self.names.get(k, str(k))

    def keys_matching(self, suffix):
        return [k for k, n in self.names.items() if n.endswith(suffix)]


def ret_cases(fn, maxdepth=8):
    """[(value_ref, anchor_inst)] : each way a value can be returned; for phi
    return values the anchor is the terminator of the incoming block"""
    out = []

    def expand(val, anchor, depth=0):
        ins = fn.get(val) if isinstance(val, str) else None
        if ins is not None and ins.op == 'phi' and len(ins.d['incoming']) == 1 and depth < 12:
            expand(ins.d['incoming'][0][0], anchor, depth + 1)  # lcssa / single-predecessor phi: same point
        elif ins is not None and ins.op == 'phi' and depth < maxdepth and \
                not any(l['header'] == ins.block.id for l in fn.loops):
            for v, b in ins.d['incoming']:
                expand(v, EdgePoint(fn, b, ins.block.id), depth + 1)
        elif ins is not None and ins.op in ('zext', 'sext', 'trunc') and depth < 12:
            expand(ins.ops[0], anchor, depth)
        elif ins is not None and ins.op == 'select' and depth < 8:
            expand(ins.ops[1], anchor, depth + 1)
            expand(ins.ops[2], anchor, depth + 1)
        else:
            out.append((val, anchor))
    for r in fn.exits():
        if r.ops:
            expand(r.ops[0], r)
        else:
            out.append((None, r))
    return out


def mask_tests(fn, ref, mask):
    """[(br, set_block, clear_block)]: branches deciding (ref & mask) != 0"""
    out = []
    want = fn.sources(ref)
    for a in fn.order:
        if a.op != 'and':
            continue
        x, y = a.ops
        for v, m in ((x, y), (y, x)):
            if isinstance(m, dict) and m.get('c') == mask and fn.sources(v) == want:
                for cond, pol in cond_chain(fn, a.id):
                    for br, t, f in fn.cond_edges(cond):
                        if t != f:
                            out.append((br, t if pol else f, f if pol else t))
    # trunc to i1 of the value (mask 1) is also a bit test
    if mask == 1:
        for a in fn.order:
            if a.op == 'trunc' and a.ty == 'i1' and fn.sources(a.ops[0]) == want:
                for cond, pol in cond_chain(fn, a.id):
                    for br, t, f in fn.cond_edges(cond):
                        if t != f:
                            out.append((br, t if pol else f, f if pol else t))
    return out


def guarded_by_bit(fn, ref, mask, want_set, target):
    for br, sb, cb in mask_tests(fn, ref, mask):
        if fn.edge_dominates(br.block.id, sb if want_set else cb, target):
            return True
    return False


def delta_of(fn, new_ref, exp_ref, at=None):
    """integer d such that new == exp + d on every path (any arrangement of the arithmetic), else None.
    With `at` (the instruction using the pair, e.g. the cmpxchg): `exp | m` counts as +m where bit m of exp was tested
    clear on an edge dominating `at`, and `exp & ~m` as -m where it was tested set."""
    d = affine_diff(fn, new_ref, exp_ref)
    if not d:
        return 0
    if set(d) == {''}:
        return d['']
    ins = fn.get(fn.strip(new_ref)) if isinstance(new_ref, str) else None
    if ins is not None and ins.op in ('add', 'sub'):
        a, b = ins.ops
        c = const_int(b)
        if c is not None and fn.sources(a) == fn.sources(exp_ref):
            return c if ins.op == 'add' else -c
        c = const_int(a)
        if ins.op == 'add' and c is not None and fn.sources(b) == fn.sources(exp_ref):
            return c
    if ins is not None and ins.op in ('or', 'and') and at is not None:
        for x, y in ((ins.ops[0], ins.ops[1]), (ins.ops[1], ins.ops[0])):
            m = const_int(y)
            if m is None or fn.sources(x) != fn.sources(exp_ref):
                continue
            if ins.op == 'or' and m > 0 and m & (m - 1) == 0 and guarded_by_bit(fn, exp_ref, m, False, at):
                return m
            nm = ~m & 0xffffffffffffffff
            if ins.op == 'and' and nm & (nm - 1) == 0 and nm > 0 and guarded_by_bit(fn, exp_ref, nm, True, at):
                return -nm
    return None


PURE_OPS = ('add', 'sub', 'mul', 'shl', 'lshr', 'ashr', 'and', 'or', 'xor', 'zext', 'sext', 'trunc', 'bitcast', 'ptrtoint',
            'inttoptr', 'sdiv', 'udiv', 'srem', 'urem', 'icmp', 'select', 'freeze')


def same_expr(fn, x, y, depth=0):
    """x and y compute the same value on every path: identical SSA value, or the same pure operation applied to
    operands that are the same (value numbering; loads, calls and phis are equal only to themselves)"""
    if isinstance(x, str):
        x = fn.strip(x)
    if isinstance(y, str):
        y = fn.strip(y)
    if isinstance(x, dict) or isinstance(y, dict):
        cx, cy = const_int(x), const_int(y)
        return (cx is not None and cx == cy) or (isinstance(x, dict) and isinstance(y, dict) and refkey(x) == refkey(y))
    if x == y:
        return True
    if depth > 24:
        return False
    if not affine_diff(fn, x, y):
        return True
    ix, iy = fn.insts.get(x), fn.insts.get(y)
    if ix is not None and iy is not None and ix.op == 'load' and iy.op == 'load':
        return loads_equal(fn, ix, iy, depth)
    if ix is None or iy is None or ix.op != iy.op or ix.op not in PURE_OPS:
        return False
    if ix.op == 'icmp' and ix.pred != iy.pred:
        return False
    if len(ix.ops) != len(iy.ops):
        return False
    if all(same_expr(fn, a, b, depth + 1) for a, b in zip(ix.ops, iy.ops)):
        return True
    if ix.op in ('add', 'mul', 'and', 'or', 'xor') and len(ix.ops) == 2:
        return same_expr(fn, ix.ops[0], iy.ops[1], depth + 1) and same_expr(fn, ix.ops[1], iy.ops[0], depth + 1)
    return False


FRESH_ALLOC = ('malloc', 'calloc', 'dr_malloc', 'myth_malloc', 'myth_flmalloc', 'real_malloc')


def loads_equal(fn, l1, l2, depth=0):
    """two non-volatile loads of the same address in one block read the same value when nothing in between can write
    that location: no calls, and stores only into objects freshly allocated in this function (malloc result / alloca)
    that the loaded address does not belong to"""
    if l1.block.id != l2.block.id or getattr(l1, 'volatile', False) or getattr(l2, 'volatile', False):
        return False
    if l1.idx > l2.idx:
        l1, l2 = l2, l1
    if depth > 12 or not same_addr(fn, l1.ops[0], l2.ops[0]):
        return False
    lroot = fn.strip(fn.ap(l1.ops[0]).root) if isinstance(fn.ap(l1.ops[0]).root, str) else None
    for ins in l1.block.insts[l1.idx + 1:l2.idx]:
        if ins.op == 'call':
            if (ins.callee or '').startswith('llvm.dbg') or (ins.callee or '').startswith('llvm.lifetime'):
                continue
            return False
        if ins.op in ('cmpxchg', 'atomicrmw', 'fence'):
            return False
        if ins.op == 'store':
            sap = fn.ap(ins.ops[1])
            r = sap.root
            ri = fn.insts.get(fn.strip(r)) if isinstance(r, str) else None
            fresh = ri is not None and (ri.op == 'alloca' or (ri.op == 'call' and ri.callee in FRESH_ALLOC))
            if fresh and fn.strip(r) != lroot:
                continue
            # a different named member of the very same object (q->top vs q->size): distinct storage
            lap = fn.ap(l1.ops[0])
            if sap.fields and lap.fields and isinstance(r, str) and fn.strip(r) == lroot and sap.fields[0] != lap.fields[0] and \
                    '<anon>' not in sap.fields[0] and '<anon>' not in lap.fields[0] and '|' not in sap.fields[0]:
                continue
            return False
    return True


def same_addr(fn, p, q):
    """two pointer values designate the same location on every path: same root object and the same fields and
    indices (indices compared as affine forms, so a re-computed but equal index expression matches)"""
    a, b = fn.ap(p), fn.ap(q)
    if a.key() == b.key():
        return True
    if len(a.steps) != len(b.steps):
        return False
    ra, rb = fn.strip(a.root) if isinstance(a.root, str) else a.root, fn.strip(b.root) if isinstance(b.root, str) else b.root
    if ra != rb and not same_value(fn, a.root, b.root):
        return False
    for x, y in zip(a.steps, b.steps):
        if x[0] != y[0]:
            return False
        if x[0] == 'f':
            if x[1] != y[1]:
                return False
        elif x[1] != y[1]:
            if isinstance(x[1], int) or isinstance(y[1], int):
                if affine_diff(fn, x[1] if not isinstance(x[1], int) else {'c': x[1], 'w': 64},
                               y[1] if not isinstance(y[1], int) else {'c': y[1], 'w': 64}):
                    return False
            elif affine_diff(fn, x[1], y[1]) and not same_expr(fn, x[1], y[1]):
                return False
    return True


def is_load_of(fn, ref, field, volatile=None):
    if field:
        fn.mod.check_fields(field)
    for k in fn.sources(ref):
        ins = fn.insts.get(k) if not k.startswith('{') else None
        if ins is None or ins.op != 'load' or fn.field(ins) != field:
            return False
        if volatile is not None and ins.volatile != volatile:
            return False
    return bool(fn.sources(ref))


# ---------------------------------------------------------------------------
# stale-value analysis: values invalidated by an event (context switch)
# ---------------------------------------------------------------------------

class StaleAnalysis:
    """Forward may-analysis over SSA names.  `tracked(ins_or_param)` says which
    values are of the tracked kind (e.g. pointers to the worker env) -- derived
    pointers (GEP/cast/phi/select) inherit.  At every instruction in `events`
    all tracked values computed so far become stale; a value is fresh again
    when its defining instruction executes again.  Phi nodes take the staleness
    of the incoming value of the edge taken.  `uses` lists (instruction,
    operand ref) pairs where a stale value is consumed."""

    DERIVE = ('getelementptr', 'bitcast', 'ptrtoint', 'inttoptr', 'select', 'addrspacecast')

    def __init__(self, fn, base_tracked, events, stale_at=None):
        self.fn = fn
        self.stale_at = stale_at
        self.events = set(e.id for e in events)
        self.tracked = set()
        for p in fn.params:
            if base_tracked(p):
                self.tracked.add(p['id'])
        changed = True
        for ins in fn.order:
            if base_tracked(ins):
                self.tracked.add(ins.id)
        while changed:
            changed = False
            for ins in fn.order:
                if ins.id in self.tracked:
                    continue
                srcs = []
                if ins.op in self.DERIVE:
                    srcs = [ins.d['base']] if ins.op == 'getelementptr' else list(ins.ops[-2:] if ins.op == 'select' else ins.ops[:1])
                elif ins.op == 'phi':
                    srcs = [v for v, _b in ins.d['incoming']]
                if any(isinstance(s, str) and s in self.tracked for s in srcs):
                    self.tracked.add(ins.id)
                    changed = True
        self.stale_uses = []
        self._solve()

    def _operands(self, ins):
        from .ir import iter_refs
        return [r for r in iter_refs(ins.d) if r in self.tracked]

    def _solve(self):
        fn = self.fn
        state_in = {b.id: None for b in fn.blocks}
        state_in[0] = frozenset()
        work = [0]
        seen_uses = set()
        it = 0
        while work and it < 50000:
            it += 1
            bid = work.pop()
            b = fn.blocks[bid]
            st = set(state_in[bid])
            dead = False
            for ins in b.insts:
                if ins.op == 'phi':
                    continue  # handled on edges
                for r in self._operands(ins):
                    if r in st and ins.op not in self.DERIVE and (ins.id, r) not in seen_uses:
                        seen_uses.add((ins.id, r))
                        self.stale_uses.append((ins, r))
                if ins.id in self.tracked:
                    if ins.op in self.DERIVE:
                        src = [ins.d['base']] if ins.op == 'getelementptr' else list(ins.ops)
                        if any(isinstance(s, str) and s in st for s in src):
                            st.add(ins.id)
                        else:
                            st.discard(ins.id)
                    else:
                        st.discard(ins.id)  # fresh value
                if ins.id in self.events:
                    st = set(self.tracked_defined_before(ins) if self.stale_at is None else (self.stale_at(ins) & self.tracked)) | st
                if fn.is_noreturn(ins):
                    dead = True
                    break
            if dead:
                continue
            for s in fn.succs(b):
                out = set(st)
                for ph in fn.blocks[s].insts:
                    if ph.op != 'phi':
                        break
                    if ph.id not in self.tracked:
                        continue
                    inc = [v for v, pb in ph.d['incoming'] if pb == bid]
                    if inc and isinstance(inc[0], str) and inc[0] in st:
                        out.add(ph.id)
                    else:
                        out.discard(ph.id)
                old = state_in[s]
                new = frozenset(out) if old is None else (old | frozenset(out))
                if new != old:
                    state_in[s] = new
                    if s not in work:
                        work.append(s)

    def tracked_defined_before(self, ev):
        # every tracked value (conservatively: all of them; values defined later are
        # refreshed when their definition executes)
        return self.tracked


# ---------------------------------------------------------------------------
# affine forms (P11)
# ---------------------------------------------------------------------------

def affine(fn, ref, depth=0):
    """value as {term_key: coeff, '': const}; terms are opaque SSA values
    (loads, calls, params, phis).  Pointer/integer casts are transparent."""
    if depth > 40:
        return {refkey(ref): 1}
    if isinstance(ref, dict):
        c = const_int(ref)
        if c is not None:
            return {'': c}
        if ref.get('ce') in ('bitcast', 'ptrtoint', 'inttoptr'):
            return affine(fn, ref['ops'][0], depth + 1)
        return {refkey(ref): 1}
    ins = fn.insts.get(ref)
    if ins is None:
        return {ref: 1}

    def comb(a, b, sb=1):
        out = dict(a)
        for k, v in b.items():
            out[k] = out.get(k, 0) + sb * v
        return {k: v for k, v in out.items() if v != 0 or k == ''}
    if ins.op in ('bitcast', 'ptrtoint', 'inttoptr', 'zext', 'sext', 'trunc', 'freeze'):
        return affine(fn, ins.ops[0], depth + 1)
    if ins.op == 'phi' and len(ins.d['incoming']) == 1:
        return affine(fn, ins.d['incoming'][0][0], depth + 1)
    if ins.op == 'add':
        return comb(affine(fn, ins.ops[0], depth + 1), affine(fn, ins.ops[1], depth + 1))
    if ins.op == 'sub':
        return comb(affine(fn, ins.ops[0], depth + 1), affine(fn, ins.ops[1], depth + 1), -1)
    if ins.op in ('mul', 'shl'):
        c = const_int(ins.ops[1])
        if c is not None:
            k = c if ins.op == 'mul' else (1 << c)
            return {t: v * k for t, v in affine(fn, ins.ops[0], depth + 1).items()}
        c = const_int(ins.ops[0])
        if c is not None and ins.op == 'mul':
            return {t: v * c for t, v in affine(fn, ins.ops[1], depth + 1).items()}
    if ins.op == 'getelementptr':
        out = affine(fn, ins.d['base'], depth + 1)
        if 'coff' in ins.d:
            return comb(out, {'': ins.d['coff']})
        # element-size scaled variable indices: only i8 arrays / byte GEPs are modelled
        srcty = ins.d.get('srcty', '')
        path = ins.d['path']
        if srcty == 'i8' and len(path) == 1 and 'p' in path[0]:
            return comb(out, affine(fn, path[0]['p'], depth + 1))
        m = None
        sz = {'i8*': 8, 'i8**': 8, 'i64': 8, 'i32': 4, 'i16': 2}.get(srcty)
        if sz is None and srcty.endswith('*'):
            sz = 8
        if sz and len(path) == 1 and 'p' in path[0]:
            idx = affine(fn, path[0]['p'], depth + 1)
            return comb(out, {t: v * sz for t, v in idx.items()})
        return {ref: 1}
    return {ref: 1}


def affine_str(a):
    parts = []
    for k in sorted(a):
        if k == '':
            continue
        parts.append('%+d*%s' % (a[k], k))
    parts.append('%+d' % a.get('', 0))
    return ' '.join(parts)


def expr_str(fn, ref, depth=0):
    """canonical structural string of the expression computing `ref` (params by
    name, loads by access path) - used to compare sibling computations"""
    if depth > 14:
        return '...'
    if isinstance(ref, dict):
        c = const_int(ref)
        if c is not None:
            return str(c)
        if 'g' in ref:
            return '@' + ref['g']
        if 'fn' in ref:
            return '&' + ref['fn']
        if 'ce' in ref:
            return '%s(%s)' % (ref['ce'], ','.join(expr_str(fn, o, depth + 1) for o in ref['ops']))
        return '?'
    ins = fn.insts.get(ref)
    if ins is None:
        i = fn.param_index(ref)
        return 'param:' + (fn.params[i]['name'] if i is not None and i < len(fn.params) and fn.params[i]['name'] else ref)
    if ins.op in ('zext', 'sext', 'trunc', 'bitcast', 'ptrtoint', 'inttoptr'):
        return '%s.%s(%s)' % (ins.op, ins.ty, expr_str(fn, ins.ops[0], depth + 1))
    if ins.op == 'load':
        return 'load(%s)' % fn.ap(ins.ops[0]).desc()
    if ins.op == 'call':
        return '%s(%s)' % (ins.callee or 'indirect', ','.join(expr_str(fn, a, depth + 1) for a in ins.args))
    if ins.op == 'phi':
        return 'phi(%s)' % ','.join(sorted(expr_str(fn, v, depth + 1) for v, _b in ins.d['incoming'] if v != ref))
    if ins.op == 'select':
        return 'select(%s)' % ','.join(expr_str(fn, o, depth + 1) for o in ins.ops)
    if ins.op == 'icmp':
        return 'icmp.%s(%s)' % (ins.pred, ','.join(expr_str(fn, o, depth + 1) for o in ins.ops))
    if ins.op == 'getelementptr':
        return '&' + fn.ap(ref).desc()
    return '%s(%s)' % (ins.op, ','.join(expr_str(fn, o, depth + 1) for o in ins.ops))


def reaches_point(fn, start, point, blocked=(), include_start=False):
    """is program point `point` (Inst or EdgePoint) reachable from `start` avoiding `blocked`?"""
    r = fn.reachable_from(start, blocked=blocked, include_start=include_start)
    b = set(x.id for x in blocked)
    if isinstance(point, EdgePoint):
        return point.term in r and point.term.id not in b and point.bto in fn.succs(fn.blocks[point.bfrom])
    return point in r


def find_unit_with(ctx, fl, fname, candidates=None):
    """translation unit (of flavour fl) whose IR defines function `fname`"""
    files = candidates or sorted(ctx.db['src'][fl])
    for f in files:
        m = ctx.ssa(f, fl)
        if m.fn(fname) is not None:
            return f
    return None


def callers_of(ctx, fl, names):
    """{callee: {caller_function: loc}} over every TU of flavour fl (non-inlined IR; direct calls and
    address-taken uses, the latter reported under caller '&<user>')"""
    names = set(names)
    out = {n: {} for n in names}
    files = sorted(ctx.db['src'][fl])
    ctx.prefetch([(f, fl, 'src') for f in files])
    for file in files:
        m = ctx.ssa(file, fl)
        for fn in m.functions.values():
            for ins in fn.order:
                if ins.op == 'call' and ins.callee in names:
                    out[ins.callee].setdefault(fn.name, ins.loc)
                blob = None
                for a in list(ins.d.get('args', [])) + list(ins.d.get('ops', [])):
                    if isinstance(a, dict) and a.get('fn') in names:
                        out[a['fn']].setdefault('&' + fn.name, ins.loc)
    return out


def cas_on(fn, field):
    return [c for c in fn.order if c.op == 'cmpxchg' and fn.field(c) == field]


def const_ret(val):
    return const_int(val) if isinstance(val, dict) else None


def guard_interval(fn, val, target, width=32):
    """(lo, hi) signed bounds on `val` established by comparisons with constants on edges that
    dominate `target` (None = unbounded)"""
    lo, hi = None, None

    def tighten(pred, c):
        nonlocal lo, hi
        if pred == 'slt':
            hi = c - 1 if hi is None else min(hi, c - 1)
        elif pred == 'sle':
            hi = c if hi is None else min(hi, c)
        elif pred == 'sgt':
            lo = c + 1 if lo is None else max(lo, c + 1)
        elif pred == 'sge':
            lo = c if lo is None else max(lo, c)
        elif pred == 'eq':
            lo = c if lo is None else max(lo, c)
            hi = c if hi is None else min(hi, c)
        elif pred == 'ult':
            # unsigned x < c (c >= 0) implies 0 <= x < c as signed
            if c >= 0:
                lo = 0 if lo is None else max(lo, 0)
                hi = c - 1 if hi is None else min(hi, c - 1)
        elif pred == 'ule':
            if c >= 0:
                lo = 0 if lo is None else max(lo, 0)
                hi = c if hi is None else min(hi, c)
    NEG = {'slt': 'sge', 'sge': 'slt', 'sgt': 'sle', 'sle': 'sgt', 'ult': 'uge', 'uge': 'ult', 'ugt': 'ule', 'ule': 'ugt',
           'eq': 'ne', 'ne': 'eq'}
    want = fn.sources(val)
    excluded = set()
    v_, val_narrowed = val, False
    while isinstance(v_, str) and v_ in fn.insts and fn.insts[v_].op in fn.PASS_OPS:
        if fn.insts[v_].op == 'trunc':
            val_narrowed = True     # the value asked about is itself the narrow copy
        v_ = fn.insts[v_].ops[0]
    for ic in fn.order:
        if ic.op != 'icmp':
            continue
        c = const_int(ic.ops[1])
        if c is None or fn.sources(ic.ops[0]) != want:
            continue
        # a comparison of a narrowed copy says nothing about the bits that were cut off
        x_, narrowed = ic.ops[0], False
        while isinstance(x_, str) and x_ in fn.insts and fn.insts[x_].op in fn.PASS_OPS:
            if fn.insts[x_].op == 'trunc':
                narrowed = True
            x_ = fn.insts[x_].ops[0]
        if narrowed and not val_narrowed:
            continue
        if fn.on_edge(ic.id, True, target):
            tighten(ic.pred, c)
            if ic.pred == 'ne':
                excluded.add(c)
        elif fn.on_edge(ic.id, False, target):
            tighten(NEG.get(ic.pred, ''), c)
            if ic.pred == 'eq':
                excluded.add(c)
    # values excluded by != tests shrink a bound they coincide with
    changed = True
    while changed:
        changed = False
        if lo is not None and lo in excluded:
            lo += 1
            changed = True
        if hi is not None and hi in excluded:
            hi -= 1
            changed = True
    return lo, hi


def eval_expr(fn, ref, env, depth=0):
    """constant-fold the pure integer expression computing `ref` with parameter values from env
    ({param id: int}); returns None if the expression is not pure integer arithmetic"""
    if depth > 60:
        return None
    if isinstance(ref, dict):
        return ref.get('c')
    if ref in env:
        return env[ref]
    ins = fn.insts.get(ref)
    if ins is None:
        return None
    ops = ins.ops

    def ev(r):
        return eval_expr(fn, r, env, depth + 1)
    w = int(ins.ty[1:]) if ins.ty and ins.ty.startswith('i') and ins.ty[1:].isdigit() else 64

    def wrap(x):
        m = 1 << w
        x &= m - 1
        return x - m if x >= m >> 1 else x
    if ins.op in ('add', 'sub', 'mul', 'sdiv', 'srem', 'shl', 'ashr', 'and', 'or', 'xor'):
        a, b = ev(ops[0]), ev(ops[1])
        if a is None or b is None:
            return None
        if ins.op == 'add':
            return wrap(a + b)
        if ins.op == 'sub':
            return wrap(a - b)
        if ins.op == 'mul':
            return wrap(a * b)
        if ins.op in ('sdiv', 'srem'):
            if b == 0:
                return None
            q = abs(a) // abs(b)
            q = q if (a >= 0) == (b >= 0) else -q
            return wrap(q) if ins.op == 'sdiv' else wrap(a - q * b)
        if ins.op == 'shl':
            return wrap(a << b)
        if ins.op == 'ashr':
            return a >> b
        return {'and': a & b, 'or': a | b, 'xor': a ^ b}[ins.op]
    if ins.op in ('udiv', 'urem', 'lshr'):
        a, b = ev(ops[0]), ev(ops[1])
        if a is None or b is None:
            return None
        ua, ub = a & ((1 << w) - 1), b & ((1 << w) - 1)
        if ins.op == 'lshr':
            return wrap(ua >> ub)
        if ub == 0:
            return None
        return wrap(ua // ub if ins.op == 'udiv' else ua % ub)
    if ins.op in ('sext', 'trunc', 'freeze', 'bitcast'):
        a = ev(ops[0])
        return None if a is None else wrap(a)
    if ins.op == 'zext':
        a = ev(ops[0])
        if a is None:
            return None
        sw = int(ins.d['srcty'][1:]) if ins.d.get('srcty', '')[1:].isdigit() else 64
        return a & ((1 << sw) - 1)
    if ins.op == 'icmp':
        a, b = ev(ops[0]), ev(ops[1])
        if a is None or b is None:
            return None
        from .ir import eval_icmp
        return 1 if eval_icmp(ins.pred, a, b, 64) else 0
    if ins.op == 'select':
        c = ev(ops[0])
        return None if c is None else ev(ops[1] if c else ops[2])
    if ins.op == 'call' and (ins.callee or '').startswith(('llvm.ctlz', 'llvm.cttz')):
        a = ev(ins.args[0])
        aw = int(ins.ty[1:]) if ins.ty and ins.ty[1:].isdigit() else 32
        if a is None:
            return None
        ua = a & ((1 << aw) - 1)
        if ua == 0:
            return aw
        if ins.callee.startswith('llvm.ctlz'):
            return aw - ua.bit_length()
        return (ua & -ua).bit_length() - 1
    if ins.op == 'phi' and len(ins.d['incoming']) == 1:
        return ev(ins.d['incoming'][0][0])
    return None


def affine_diff(fn, x, y):
    """affine form of (x - y) with zero terms dropped"""
    a, b = affine(fn, x), affine(fn, y)
    out = {}
    for k in set(a) | set(b):
        v = a.get(k, 0) - b.get(k, 0)
        if v != 0:
            out[k] = v
    return out


def load_terms(fn, form, field):
    return [k for k in form if k in fn.insts and fn.insts[k].op == 'load' and fn.field(fn.insts[k]) == field]


def eval_cmp_fn(f, pick):
    """Abstract execution of a loop-free function that uses its inputs only in comparisons, on one representative of an
    ordering case: `pick` maps (root ref, field) of every load to its value.  Returns the returned integer, or None as soon
    as the function does anything else (arithmetic on the inputs, calls, stores, loops): the finite case split is then no
    longer a proof and the caller reports that."""
    def getv(vals, r):
        if isinstance(r, dict):
            return r.get('c')
        return vals.get(r)
    vals = {}
    cur = f.blocks[0]
    prev = None
    steps = 0
    while steps < 400:
        steps += 1
        for ins in cur.insts:
            if ins.op == 'phi':
                for val, pb in ins.d['incoming']:
                    if prev is not None and pb == prev.id:
                        vals[ins.id] = getv(vals, val)
                continue
            if ins.op == 'load':
                fld = f.field(ins)
                root = f.strip(f.ap(ins.ops[0]).root)
                if (root, fld) not in pick:
                    return None
                vals[ins.id] = pick[(root, fld)]
            elif ins.op == 'icmp':
                x, y = getv(vals, ins.ops[0]), getv(vals, ins.ops[1])
                if x is None or y is None:
                    return None
                vals[ins.id] = 1 if eval_icmp(ins.pred, x, y) else 0
            elif ins.op in ('zext', 'sext', 'trunc', 'bitcast'):
                vals[ins.id] = getv(vals, ins.ops[0])
            elif ins.op == 'select':
                c = getv(vals, ins.ops[0])
                vals[ins.id] = getv(vals, ins.ops[1] if c else ins.ops[2])
            elif ins.op in ('and', 'or', 'xor'):
                x, y = getv(vals, ins.ops[0]), getv(vals, ins.ops[1])
                if x is None or y is None:
                    return None
                vals[ins.id] = {'and': x & y, 'or': x | y, 'xor': x ^ y}[ins.op]
            elif ins.op == 'getelementptr':
                continue
            elif ins.op == 'br':
                prev = cur
                if 'cond' in ins.d:
                    c = getv(vals, ins.d['cond'])
                    if c is None:
                        return None
                    cur = f.blocks[ins.d['t'] if c else ins.d['f']]
                else:
                    cur = f.blocks[ins.d['t']]
                break
            elif ins.op == 'ret':
                return getv(vals, ins.ops[0])
            else:
                return None
    return None


def min_delta(fn, v, base, depth=0, seen=None):
    """a constant d with v >= base + d on every path (v reached from base only through additions of constants, merges,
    and inner loops whose own cursor never moves backwards), or None when no such bound is derivable"""
    if seen is None:
        seen = set()
    if isinstance(v, str):
        v = fn.strip(v)
    if isinstance(base, str):
        base = fn.strip(base)
    if v == base:
        return 0
    if not isinstance(v, str) or depth > 40 or v in seen:
        return None
    ins = fn.insts.get(v)
    if ins is None:
        return None
    if ins.op in ('add', 'sub'):
        c = const_int(ins.ops[1])
        if c is not None:
            d = min_delta(fn, ins.ops[0], base, depth + 1, seen)
            return None if d is None else d + (c if ins.op == 'add' else -c)
        c = const_int(ins.ops[0])
        if c is not None and ins.op == 'add':
            d = min_delta(fn, ins.ops[1], base, depth + 1, seen)
            return None if d is None else d + c
        return None
    if ins.op in ('sext', 'zext', 'trunc', 'freeze'):
        return min_delta(fn, ins.ops[0], base, depth + 1, seen)
    if ins.op == 'phi':
        hdr = [l for l in fn.loops if l['header'] == ins.block.id]
        inc = ins.d['incoming']
        if hdr:
            lp = hdr[0]
            inside = [(val, b) for val, b in inc if b in lp['blocks']]
            outside = [(val, b) for val, b in inc if b not in lp['blocks']]
            # an inner loop's cursor: never moves backwards round its own loop, so it is at least its initial value
            for val, b in inside:
                d = min_delta(fn, val, ins.id, depth + 1, seen | {v})
                if d is None or d < 0:
                    return None
            ds = [min_delta(fn, val, base, depth + 1, seen | {v}) for val, b in outside]
        else:
            ds = [min_delta(fn, val, base, depth + 1, seen | {v}) for val, b in inc if not (isinstance(val, str) and fn.strip(val) == v)]
        if not ds or any(d is None for d in ds):
            return None
        return min(ds)
    return None


def object_field_paths(fn, root, ops=('load', 'cmpxchg', 'atomicrmw'), store=False):
    """{field path (tuple of field names, indices dropped) -> first instruction} for accesses to the object `root` points to"""
    out = {}
    for ins in fn.order:
        if store:
            if ins.op == 'store':
                ptr = ins.ops[1]
            elif ins.op == 'call' and (ins.callee or '').startswith(('llvm.memcpy', 'llvm.memset', 'llvm.memmove')):
                if const_int(ins.args[2]) == 0:
                    continue        # an empty struct: writes nothing (and its address is that of the next member)
                ptr = ins.args[0]
            else:
                continue
        else:
            if ins.op not in ops:
                continue
            ptr = ins.ops[0]
        ap = fn.ap(ptr)
        if not ap.fields or not same_value(fn, ap.root, root):
            continue
        out.setdefault(tuple(ap.fields), ins)
    return out


def init_covers(ctx, rule, view, init_name, user_names, what):
    """initialiser completeness: every field of the object that an operation reads (directly or through an inlined helper)
    is written by the initialiser (a write to an enclosing aggregate covers its members)"""
    ini = ctx.need_fn(view, init_name)
    iroot = ini.params[0]['id'] if ini.params else 'a0'
    written = object_field_paths(ini, iroot, store=True)
    all_written = {}
    for i_ in ini.order:
        ptr = i_.ops[1] if i_.op == 'store' else (i_.args[0] if i_.op == 'call' and (i_.callee or '').startswith(('llvm.memcpy', 'llvm.memset', 'llvm.memmove')) else None)
        if ptr is None:
            continue
        ap_ = ini.ap(ptr)
        if ap_.fields and same_value(ini, ap_.root, iroot):
            all_written.setdefault(tuple(ap_.fields), []).append(i_)
    ctx.ob(rule, '%s: initialiser writes the object' % init_name, len(written) >= 1, 'stores through the object parameter', loc=ini.loc)
    n = 0
    seen = set()
    for un in user_names:
        u = ctx.need_fn(view, un)
        uroot = u.params[0]['id'] if u.params else 'a0'
        for path, ins in sorted(object_field_paths(u, uroot).items()):
            if path in seen:
                continue
            seen.add(path)
            n += 1
            cov = [w for w in written if path[:len(w)] == w]
            short = '.'.join(x.split('.', 1)[-1] for x in path)
            if cov:
                # ... on every path to a successful return (a return of a non-zero constant is a rejected initialisation)
                sts = [i_ for i_ in ini.order for w in cov if i_ in all_written.get(w, [])]
                for val, anchor in ret_cases(ini):
                    if const_int(val) not in (None, 0):
                        continue
                    if reaches_point(ini, ini.entry_inst(), anchor, blocked=sts, include_start=True):
                        cov = []
            ctx.ob(rule, '%s sets %s before any operation reads it' % (init_name, short), bool(cov),
                   '%s: an object placed in recycled (non-zero) memory starts from whatever the previous owner left in a field the '
                   'initialiser skips' % what, loc=ini.loc, detail='read by %s at %s' % (un, ins.loc))
    return n


def chain_discipline(ctx, rule, f, producers, label):
    """the collect-then-release idiom of the wake-many functions: each element obtained in the collecting loop is appended to
    a private chain (tail->next = t, or head = t for the first), becomes the new tail on every iteration, ends the chain
    (t->next = 0), and the release loop starts from the head"""
    ps = [c for c in f.calls() if c.callee in producers]
    ctx.ob(rule, '%s: one producer site in a loop' % label, len(ps) == 1 and loop_containing(f, ps[0]) is not None, 'collecting loop', loc=f.loc)
    if len(ps) != 1 or loop_containing(f, ps[0]) is None:
        return
    p = ps[0]
    lp = loop_containing(f, p)
    # outermost loop that contains the producer but not the run-queue pushes
    pushes = [c for c in f.calls() if c.callee == 'myth_queue_push']
    cand = [l for l in f.loops if p.block.id in l['blocks'] and not any(x.block.id in l['blocks'] for x in pushes)]
    if cand:
        lp = max(cand, key=lambda l: len(l['blocks']))
    tsrc = set(f.sources(p.id)) | {p.id}

    hdr_phis = set(i.id for i in f.blocks[lp['header']].insts if i.op == 'phi')

    def is_t(v, depth=0):
        # v is the element obtained in *this* iteration: the producer's result, possibly through casts, the inner spin
        # loop's phi and merges of such values - never a value carried round the collecting loop
        if not isinstance(v, str) or depth > 12:
            return False
        v = f.strip(v)
        if v == p.id:
            return True
        if v in hdr_phis:
            return False
        i = f.insts.get(v)
        if i is None or i.op != 'phi':
            return False
        vals = [x for x, b in i.d['incoming'] if not (isinstance(x, dict) and (x.get('null') or x.get('undef')))]
        vals = [x for x in vals if not (isinstance(x, str) and f.strip(x) == v)]
        return bool(vals) and all(is_t(x, depth + 1) for x in vals)
    hdr = f.blocks[lp['header']]
    phis = [i for i in hdr.insts if i.op == 'phi' and i.ty.endswith('*') and
            any(isinstance(v, dict) and v.get('null') for v, b in i.d['incoming'] if b not in lp['blocks'])]
    links = [st for st in f.stores_to('myth_thread.next') if is_t(st.ops[0]) and st.block.id in lp['blocks']]
    tails = [ph for ph in phis if any(f.strip(f.ap(st.ops[1]).root) == ph.id or ph.id in f.sources(f.ap(st.ops[1]).root) for st in links)]
    heads = [ph for ph in phis if ph not in tails]
    ctx.ob(rule, '%s: chain has a head and a tail' % label, len(tails) == 1 and len(heads) >= 1 and len(links) >= 1,
           'to_wake_head / to_wake_tail and tail->next = t', loc=p.loc, detail='%d pointer phis, %d link stores' % (len(phis), len(links)))
    for ph in tails:
        lat = [v for v, b in ph.d['incoming'] if b in lp['blocks']]
        ctx.ob(rule, '%s: the new element becomes the tail on every iteration' % label, bool(lat) and all(is_t(v) for v in lat),
               'a tail that stays behind makes the next append overwrite the link to every element in between, which is then '
               'dequeued but never made runnable', loc=p.loc, detail=', '.join(describe(f, v) for v in lat))
        def tested_nonnull(st):
            # a test of the loop-carried tail itself (this iteration's value), not of some other value that merely shares its origins
            for ic in f.order:
                if ic.op == 'icmp' and ic.pred in ('eq', 'ne') and isinstance(ic.ops[0], str) and f.strip(ic.ops[0]) == ph.id and \
                        isinstance(ic.ops[1], dict) and (ic.ops[1].get('null') or ic.ops[1].get('c') == 0):
                    for cond, pol in cond_chain(f, ic.id, True):
                        for br, t_, f_ in f.cond_edges(cond):
                            nn = t_ if (pol == (ic.pred == 'ne')) else f_
                            if f.edge_dominates(br.block.id, nn, st):
                                return True
            return False
        for st in links:
            ctx.ob(rule, '%s: link only behind an existing tail' % label, tested_nonnull(st), 'if (tail) tail->next = t',
                   loc=st.loc)
    for ph in heads:
        lat = [v for v, b in ph.d['incoming'] if b in lp['blocks']]
        def head_ok(v, depth=0):
            if not isinstance(v, str) or depth > 8:
                return False
            v2 = f.strip(v)
            if v2 == ph.id or is_t(v2):
                return True
            i = f.insts.get(v2)
            if i is not None and i.op == 'phi' and v2 not in hdr_phis:
                return all(head_ok(x, depth + 1) for x, b in i.d['incoming'])
            return False
        ok = bool(lat) and all(head_ok(v) for v in lat)
        ctx.ob(rule, '%s: head is the first element' % label, ok, 'head changes only from NULL to the first element', loc=p.loc)
    term = [st for st in f.stores_to('myth_thread.next') if isinstance(st.ops[0], dict) and st.ops[0].get('null') and
            is_t(f.ap(st.ops[1]).root) and st.block.id in lp['blocks']]
    ctx.ob(rule, '%s: each element ends the chain' % label, len(term) >= 1, 't->next = 0', loc=p.loc)
    # as many elements are released as were collected: both loops count i = 0 .. n-1 with the same n
    def bound_of(L):
        for ic in f.order:
            if ic.op == 'icmp' and ic.pred in ('slt', 'ult') and ic.block.id == L['header']:
                ph = f.get(f.strip(ic.ops[0])) if isinstance(ic.ops[0], str) else None
                if ph is not None and ph.op == 'phi' and any(const_int(v_) == 0 for v_, b_ in ph.d['incoming']):
                    return ic.ops[1]
        return None
    for x in pushes:
        Lx = loop_containing(f, x)
        bc, bx = bound_of(lp), (bound_of(Lx) if Lx is not None else None)
        ctx.ob(rule, '%s: release loop runs as many times as the collecting loop' % label,
               bc is not None and bx is not None and same_value(f, bc, bx),
               'n elements collected, n elements made runnable: one more dereferences the end of the chain, one fewer leaves a waiter asleep',
               loc=x.loc)
    for x in pushes:
        srcs = set(k for k in f.sources(x.args[1]) if not k.startswith('{'))
        okh = bool(srcs) and all(k in [h.id for h in heads] or k in tsrc or
                                 (k in f.insts and f.insts[k].op == 'load' and f.field(f.insts[k]) == 'myth_thread.next') for k in srcs)
        ctx.ob(rule, '%s: release walks the chain from its head' % label, okh, 'to_wake = head; push; to_wake = next', loc=x.loc)


def unnormalised_index_uses(fn, accs, is_raw, sentinel=-1):
    """[(access, raw_inst)]: a *raw* value (is_raw(inst): it may hold `sentinel`, e.g. worker == -1 for "more than one worker")
    reaches the address of one of the memory accesses `accs` although it was neither replaced on the == sentinel edge of a test
    of that very value (normalising phi / select) nor is the access confined to the != sentinel edge of such a test."""
    from .ir import EdgePoint, iter_refs
    bad = []

    def is_sent(o):
        c = const_int(o)
        return c is not None and (c == sentinel or c == sentinel + (1 << 32) or c == sentinel + (1 << 64))

    def tests_of(x):
        out = []
        for ic in fn.users(x):
            if ic.op == 'icmp' and ic.pred in ('eq', 'ne') and (is_sent(ic.ops[1]) or is_sent(ic.ops[0])):
                for cond, pol in cond_chain(fn, ic.id):
                    out.append((cond, pol if ic.pred == 'eq' else not pol))
        return out

    def normalising(ins):
        """the incoming / operand X such that ins == (X == sentinel ? replacement : X), or None"""
        if ins.op == 'select':
            c, a, b = ins.ops
            for x, other_is_true in ((b, True), (a, False)):
                xi = fn.strip(x)
                if isinstance(xi, str) and any(cond == c and eqpol == other_is_true for cond, eqpol in tests_of(xi)):
                    return x
            return None
        inc = ins.d['incoming']
        for v, b in inc:
            xi = fn.strip(v)
            if not isinstance(xi, str):
                continue
            for cond, eqpol in tests_of(xi):
                ok = True
                for v2, b2 in inc:
                    ep = EdgePoint(fn, b2, ins.block.id)
                    want = (not eqpol) if (v2 is v and b2 == b) else eqpol
                    if not fn.on_edge(cond, want, ep):
                        ok = False
                        break
                if ok:
                    return v
        return None

    def walk(ref, acc, seen, guarded_for=None):
        ins = fn.get(ref) if isinstance(ref, str) else None
        if ins is None or ins.id in seen:
            return
        seen.add(ins.id)
        if is_raw(ins):
            if ins.id != guarded_for and not any(fn.on_edge(cond, not eqpol, acc) for cond, eqpol in tests_of(ins.id)):
                bad.append((acc, ins))
            return
        if ins.op == 'select' or (ins.op == 'phi' and len(ins.d['incoming']) > 1):
            x = normalising(ins)
            vals = list(ins.ops[1:]) if ins.op == 'select' else [v for v, _b in ins.d['incoming']]
            for v in vals:
                walk(v, acc, seen, fn.strip(x) if (x is not None and v is x) else None)
            return
        if ins.op in ('load', 'call', 'alloca', 'invoke'):
            return
        for r in iter_refs(ins.d):
            walk(r, acc, seen, guarded_for if ins.op in fn.PASS_OPS else None)

    for acc in accs:
        addr = acc.ops[1] if acc.op == 'store' else acc.ops[0]
        walk(addr, acc, set())
    return bad


NATIVE_FORWARD_EXCEPTIONS = {
    # public function: body it is defined to reach although the names differ (argument lists differ too: only the callee is decided)
    'myth_create': 'myth_create_ex_body',      # creation without an attribute object
    'myth_init': 'myth_init_ex_body',          # initialisation with default attributes
    'myth_sched_yield': 'myth_yield_body',     # alias kept for sched_yield users
}


# entry points that have no separate body (confirmed by reading; the work-stealing customisation API)
NATIVE_IN_PLACE = ('myth_wsapi_get_hint_ptr', 'myth_wsapi_get_hint_size', 'myth_wsapi_rand', 'myth_wsapi_randarr', 'myth_wsapi_set_hint',
                   'myth_wsapi_runqueue_pass', 'myth_wsapi_runqueue_peek', 'myth_wsapi_runqueue_pop', 'myth_wsapi_runqueue_push',
                   'myth_wsapi_runqueue_take', 'myth_wsapi_set_stealfunc', 'myth_exit_workers_ex', 'myth_ext_exit_workers_ex')


def native_forwarding(ctx, rule, fl, select, floor=1):
    """public entry points of the native API (myth_if_native.c): `myth_X(args)` reaches exactly the implementation
    `myth_X_body`, with its parameters forwarded position by position and the body's result returned.  `select(name)` picks the
    entry points that belong to the calling property.  A copy-and-paste slip between siblings (trylock -> lock_body, signal ->
    broadcast_body, swapped arguments, dropped result) compiles, and passes every test that does not use that entry point."""
    raw = ctx.ssa('myth_if_native.c', fl)
    pub = sorted(n for n, f in raw.functions.items() if not f.internal and n.startswith('myth_'))
    bodies = sorted(n for n in raw.functions if n.endswith('_body'))
    v = ctx.view('myth_if_native.c', roots=pub, stops=bodies, flavour=fl)
    n_sel = 0
    for n in pub:
        if not select(n):
            continue
        want = NATIVE_FORWARD_EXCEPTIONS.get(n, n + '_body')
        f = ctx.need_fn(v, n)
        bc = [c for c in f.calls() if c.callee and c.callee.endswith('_body')]
        if n in NATIVE_IN_PLACE and not bc:
            continue        # implemented in place (no separate body): decided by the rules that analyse it
        # (a body that is defined but no longer emitted because this entry point stopped calling it still counts: the entry
        # point then reaches a sibling's body, which the first obligation reports)
        n_sel += 1
        ctx.ob(rule, '%s reaches %s only' % (n, want), [c.callee for c in bc] == [want],
               'the public entry point calls the implementation of the same name, once, and no sibling', loc=f.loc,
               detail='calls ' + ', '.join(c.callee for c in bc))
        if [c.callee for c in bc] != [want] or n in NATIVE_FORWARD_EXCEPTIONS:
            continue
        c = bc[0]
        npar = len(f.params)
        ctx.ob(rule, '%s forwards its parameters in order' % n,
               len(c.args) == npar and all(same_value(f, c.args[i], 'a%d' % i) for i in range(npar)),
               'argument i of the body is parameter i of the entry point', loc=c.loc)
        rets = [r for r in f.order if r.op == 'ret' and r.ops]
        if rets and c.ty not in (None, 'void'):
            ctx.ob(rule, '%s returns the body\'s result' % n, all(same_value(f, r.ops[0], c.id) for r in rets),
                   'the result of the implementation is what the caller sees', loc=c.loc)
    ctx.floor(rule, floor)
    return n_sel


def accessor_agreement(ctx, rule, v, struct, setfmt, getfmt, table, null_default=None, null_init=None):
    """attribute accessors: `set<X>` stores parameter i into field F of the attribute object and nothing else of the object, and
    `get<X>` hands out that same field F through out-parameter i.  table: X -> [(param index, field)].  A setter that lands in a
    sibling's field compiles and is invisible to every test that does not read the attribute back."""
    for x, pairs in sorted(table.items()):
        s = ctx.need_fn(v, setfmt % x)
        g = ctx.need_fn(v, getfmt % x)
        want = dict((struct + '.' + fld, 'a%d' % i) for i, fld in pairs)
        sts = [st for st in s.order if st.op == 'store' and s.field(st).startswith(struct + '.')]
        got = {}
        for st in sts:
            got.setdefault(s.field(st), []).append(st)
        ok = set(got) == set(want) and all(len(l) == 1 and same_value(s, l[0].ops[0], want[f]) for f, l in got.items())
        ctx.ob(rule, '%s stores its argument(s) in %s' % (setfmt % x, ', '.join(f for _i, f in pairs)), ok,
               'the setter writes exactly the field(s) it is named after, with the value(s) it was given', loc=s.loc,
               detail='writes ' + ', '.join(sorted(got)))
        okg = True
        for i, fld in pairs:
            outs = [st for st in g.order if st.op == 'store' and same_value(g, g.ap(st.ops[1]).root, 'a%d' % i)]
            okg = okg and len(outs) == 1 and all(
                (lambda l: l is not None and l.op == 'load' and g.field(l) == struct + '.' + fld)(g.get(g.strip(o.ops[0]))) for o in outs)
        ctx.ob(rule, '%s reads %s' % (getfmt % x, ', '.join(f for _i, f in pairs)), okg,
               'the getter returns the field(s) the setter wrote', loc=g.loc)
        if null_default:
            # the object accessed is the one passed in; the global default object stands in exactly when NULL was passed
            from .ir import EdgePoint
            for fn_, accs in ((s, sts), (g, [l for l in g.order if l.op == 'load' and g.field(l).startswith(struct + '.') and
                                            g.field(l).split('.', 1)[1] in [f_ for _i, f_ in pairs]])):
                okobj = bool(accs)
                for acc in accs:
                    addr = acc.ops[1] if acc.op == 'store' else acc.ops[0]
                    r = fn_.ap(addr).root
                    ri = fn_.get(fn_.strip(r)) if isinstance(r, str) else None
                    if isinstance(r, str) and fn_.strip(r) == 'a0':
                        continue
                    if ri is None or ri.op != 'phi':
                        okobj = False
                        continue
                    nts = [t for t in null_tests(fn_, 'a0') if t[1] != t[2]]
                    for val, b in ri.d['incoming']:
                        ep = EdgePoint(fn_, b, ri.block.id)
                        if isinstance(val, str) and fn_.strip(val) == 'a0':
                            okobj = okobj and any(fn_.edge_dominates(br.block.id, nn, ep) for br, nn, nl in nts)
                        elif isinstance(fn_.ap(val).root, dict) and fn_.ap(val).root.get('g') == null_default:
                            okobj = okobj and any(fn_.edge_dominates(br.block.id, nl, ep) for br, nn, nl in nts)
                        else:
                            okobj = False
                ctx.ob(rule, '%s works on the object it was given (%s only for NULL)' % (fn_.name, null_default), okobj,
                       'attr != NULL: that object; attr == NULL: the process-wide default object', loc=fn_.loc)
                if null_init:
                    # on the NULL path the default object is materialised first: every path from the NULL edge to the access
                    # passes the initialiser call or the edge on which its `initialized` flag was read non-zero
                    nts = [t for t in null_tests(fn_, 'a0') if t[1] != t[2]]
                    inits = [c for c in fn_.calls() if c.callee == null_init[0] and isinstance(fn_.ap(c.args[0]).root, dict) and
                             fn_.ap(c.args[0]).root.get('g') == null_default]
                    flag = [l for l in fn_.order if l.op == 'load' and fn_.field(l) == null_init[1] and
                            isinstance(fn_.ap(l.ops[0]).root, dict) and fn_.ap(l.ops[0]).root.get('g') == null_default]
                    cut = set()
                    for l in flag:
                        for ic in fn_.users(l.id):
                            if ic.op == 'icmp' and ic.pred in ('eq', 'ne') and const_int(ic.ops[1]) == 0:
                                for cond, pol in cond_chain(fn_, ic.id):
                                    for br, t_, f_ in fn_.cond_edges(cond):
                                        nonzero = (t_ if pol else f_) if ic.pred == 'ne' else (f_ if pol else t_)
                                        cut.add((br.block.id, nonzero))
                        for cond, pol in cond_chain(fn_, l.id):     # if (g.initialized) / if (!g.initialized) on the i32 itself
                            for br, t_, f_ in fn_.cond_edges(cond):
                                cut.add((br.block.id, t_ if pol else f_))
                    ib = set(c.block.id for c in inits)
                    okm = bool(nts) and bool(accs)
                    for br, nn, nl in nts:
                        seen_b, work = set(), [nl]
                        while work:
                            b_ = work.pop()
                            if b_ in seen_b or b_ in ib:
                                continue
                            seen_b.add(b_)
                            for s_ in fn_.succs(fn_.blocks[b_]):
                                if (b_, s_) not in cut:
                                    work.append(s_)
                        if any(a_.block.id in seen_b for a_ in accs):
                            okm = False
                    ctx.ob(rule, '%s materialises the defaults before it touches %s' % (fn_.name, null_default), okm,
                           'a value stored into the default object while it is still marked uninitialised is overwritten when the '
                           'defaults are filled in later (the request is silently lost)', loc=fn_.loc)


def sleep_container_init_complete(ctx, rule, fl, kind):
    """the wait container embedded in a synchronisation object (kind 'queue': mutex, condition variable, join counter; 'stack':
    barrier) is itself initialised completely: every field its insert / remove operations read is written by its initialiser.
    The insertion runs inside a context-switch callback that receives the container, not the object, so the object-level
    initialiser-completeness rule does not see these reads."""
    names = {'queue': ('myth_sleep_queue_init', ['myth_sleep_queue_enq', 'myth_sleep_queue_deq']),
             'stack': ('myth_sleep_stack_init', ['myth_sleep_stack_push', 'myth_sleep_stack_pop'])}[kind]
    v = ctx.view('myth_if_native.c', roots=[names[0]] + names[1], stops=SPIN_STOPS + ('myth_spin_init_body',), flavour=fl)
    n = init_covers(ctx, rule, v, names[0], names[1], 'sleep ' + kind)
    # a lock embedded in the container that the operations take must be initialised by the container's initialiser as well
    ini = ctx.need_fn(v, names[0])
    locked = set()
    for un in names[1]:
        u = ctx.need_fn(v, un)
        for c in u.calls():
            if c.callee in (SPIN_LOCK, SPIN_TRYLOCK) and same_value(u, u.ap(c.args[0]).root, 'a0') and u.ap(c.args[0]).fields:
                locked.add(u.ap(c.args[0]).fields[-1])
    inited = set(ini.ap(c.args[0]).fields[-1] for c in ini.calls() if c.callee == 'myth_spin_init_body' and
                 same_value(ini, ini.ap(c.args[0]).root, 'a0') and ini.ap(c.args[0]).fields)
    for fld in sorted(locked):
        ctx.ob(rule, '%s initialises the lock %s its operations take' % (names[0], fld.split('.')[-1]), fld in inited,
               'a lock word left as the previous owner of the memory wrote it can read "held": the first insertion spins forever',
               loc=ini.loc)
    ctx.ob(rule, 'sleep %s: fields read by insert / remove enumerated' % kind, n >= (2 if kind == 'queue' else 1),
           'read set of the container operations', loc='src/myth_sleep_queue_func.h', detail=str(n))
